"""Known finding C13 (open): LeastSquaresScipyStrategy does not keep parameters within their prior's bounds.
Run:  cd /repo && /venv/bin/python /verif/findings/C13_scipy_bounds_demo.py
The data are generated with r = 0.5; the prior restricts r to [0.55, 0.7].  The strategy hands the
optimiser no limits and discards the prior residual (np.append result unused), so the fit returns
r ~ 0.5 < 0.55."""
import os
import sys
import warnings
sys.path.insert(0, os.getcwd())
warnings.simplefilter('ignore')
from holopy.core.metadata import detector_grid
from holopy.scattering import calc_holo, MieLens, Sphere
from holopy.inference import AlphaModel, LeastSquaresScipyStrategy, prior

th = MieLens(lens_angle=0.8)
det = detector_grid(12, .4)
data = calc_holo(det, Sphere(n=1.59, r=.5, center=(2.2, 2.3, 5)), medium_index=1.33, illum_wavelen=.66,
                 illum_polarization=(1, 0), theory=th, scaling=0.8)
data.attrs['noise_sd'] = 0.01
rp = prior.Uniform(.55, .7, .6)
model = AlphaModel(Sphere(n=1.59, r=rp, center=(2.2, 2.3, prior.Uniform(3, 7, 5.1))), alpha=0.8, theory=th,
                   medium_index=1.33, illum_wavelen=.66, illum_polarization=(1, 0))
res = LeastSquaresScipyStrategy().fit(model, data)
r = res.parameters['r']
print('fitted r =', r, ' prior bounds =', (rp.lower_bound, rp.upper_bound))
print('VIOLATES the bounds' if not (rp.lower_bound <= r <= rp.upper_bound) else 'within bounds')
