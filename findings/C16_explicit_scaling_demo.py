"""C16 known finding: a TIFF exported with an explicit scaling=(lo, hi) that is wider than the data range does not come
back from hp.load with its values: load() stretches the stored minimum/maximum onto (lo, hi) instead of undoing the
export mapping.  Run: cd /repo && /venv/bin/python /verif/findings/C16_explicit_scaling_demo.py"""
import os, shutil, sys, tempfile, warnings
sys.path.insert(0, os.getcwd())
warnings.simplefilter('ignore')
import numpy as np
from holopy.core.metadata import data_grid
from holopy.core.io import save_image, load

im = data_grid(np.array([[20.0, 21.5], [23.5, 22.0]]), spacing=0.1, name='holo')
d = tempfile.mkdtemp()
try:
    fn = os.path.join(d, 'im.tif')
    save_image(fn, im, scaling=(10, 30), depth=8)
    back = load(fn)
finally:
    shutil.rmtree(d)
print('saved   :', im.values.reshape(-1))
print('reloaded:', back.values.reshape(-1))
err = np.abs(back.values.reshape(-1) - im.values.reshape(-1)).max()
print('max error %.3g (one grey level of the export = %.3g)' % (err, 20 / 255))
sys.exit(0 if err <= 0.5 * 20 / 255 * 1.001 else 1)
