"""C17 known finding: ifft(fft(img)) moves the coordinate origin to 0 for an image whose x/y coordinates do not start
at 0 (e.g. a cropped sub-image).  Run: cd /repo && /venv/bin/python /verif/findings/C17_offset_origin_demo.py"""
import os, sys
sys.path.insert(0, os.getcwd())
import numpy as np
from holopy.core.metadata import data_grid
from holopy.core.process import fft, ifft

img = data_grid(np.arange(48.).reshape(6, 8), spacing=0.5)
sub = img.isel(x=slice(2, 6), y=slice(3, 7))          # coordinates start at x=1.0, y=1.5
back = ifft(fft(sub))
print('input  x:', sub.x.values, ' y:', sub.y.values)
print('output x:', back.x.values, ' y:', back.y.values)
ok_vals = np.allclose(back.values, sub.values)
ok_coords = np.allclose(back.x.values, sub.x.values) and np.allclose(back.y.values, sub.y.values)
print('values returned:', ok_vals, ' coordinates returned:', ok_coords)
sys.exit(0 if ok_coords else 1)
