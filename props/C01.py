"""C01 - hologram = |scaling*scattered field + unit reference wave|^2 on the detector."""
import numpy as np
import xarray as xr

from symx import core
from symx.core import SymC, SymR
from symx.harness import obligation
from symx.shim import shim_np, shim_xarray_mean

LEVEL = 'model_checking'
ASSUMPTIONS = [
    "floats are modelled as reals (finiteness of the result is outside the claim)",
    "the scattering-theory kernel is a stub returning an arbitrary complex 3-vector per detector point and "
    "sphere (the formula is kernel independent); compiled theories' COMMON/SAVE state is outside the claim",
    "medium index, wavelength and detector coordinates are concrete; field values, polarization, scaling and the "
    "sphere depth z are symbolic",
]

import holopy.scattering.interface as iface
import holopy.scattering.imageformation as imf
import holopy.core.metadata as meta
import holopy.core.utils as utils
import holopy.core.math as hm
from holopy.core.metadata import detector_grid, detector_points
from holopy.scattering.scatterer import Sphere, Spheres
from holopy.scattering.theory.scatteringtheory import ScatteringTheory
from holopy.scattering import calc_holo, calc_field, calc_intensity

FUNCS = ['holopy.scattering.interface.calc_holo', 'holopy.scattering.interface.calc_field',
         'holopy.scattering.interface.calc_intensity', 'holopy.scattering.interface.scattered_field_to_hologram',
         'holopy.scattering.interface.prep_schema', 'holopy.scattering.interface.finalize',
         'holopy.scattering.interface.validate_scatterer', 'holopy.scattering.interface.interpret_theory',
         'holopy.scattering.imageformation.ImageFormation.calculate_scattered_field',
         'holopy.scattering.imageformation.ImageFormation._calculate_single_color_scattered_field',
         'holopy.scattering.imageformation.ImageFormation._calculate_scattered_field_from_superposition',
         'holopy.scattering.imageformation.ImageFormation._get_field_from',
         'holopy.scattering.imageformation.ImageFormation._pack_field_into_xarray',
         'holopy.scattering.imageformation.ImageFormation._transform_to_desired_coordinates',
         'holopy.core.metadata.update_metadata', 'holopy.core.metadata.to_vector',
         'holopy.core.metadata.flat', 'holopy.core.metadata.from_flat', 'holopy.core.metadata.copy_metadata']


def setup(S):
    if S.sym:
        for m in (iface, imf, meta, utils, hm):
            shim_np(S, m)
        shim_xarray_mean(S)


def make_stub_theory(S, coord='spherical', log=None, tagger=None, by_position=False):
    """ScatteringTheory whose kernel returns an arbitrary (symbolic) field per
    (sphere tag, detector point).  Points are identified by their index in the
    call, or (by_position=True) by their detector (x, y) coordinates, recorded
    from the schema handed to ImageFormation._transform_to_desired_coordinates."""
    last = {}
    if by_position:
        orig = imf.ImageFormation._transform_to_desired_coordinates

        def wrapped(self, detector, origin, wavevec=1):
            f = meta.flat(detector)
            last['xy'] = [(int(round(float(x) * 1e4)), int(round(float(y) * 1e4)))
                          for x, y in zip(f.x.values, f.y.values)]
            return orig(self, detector, origin, wavevec=wavevec)
        S.patch(imf.ImageFormation, '_transform_to_desired_coordinates', wrapped, both=True)

    class StubTheory(ScatteringTheory):
        desired_coordinate_system = coord

        def __init__(self):
            pass

        def can_handle(self, scatterer):
            return isinstance(scatterer, Sphere)

        def raw_fields(self, pos, scatterer, medium_wavevec, medium_index, illum_polarization):
            n = pos.shape[1]
            tag = tagger(scatterer) if tagger else 'E%d_' % int(round(float(np.max(scatterer.r)) * 100))
            if log is not None:
                log.append((tag, pos, scatterer, medium_wavevec, medium_index, illum_polarization))
            out = np.empty((3, n), dtype=object if S.sym else complex)
            for i in range(n):
                pt = ('%d_%d' % last['xy'][i]) if by_position else str(i)
                for c in range(3):
                    out[c, i] = S.cplx(f'{tag}{pt}{"xyz"[c]}')
            return out
    return StubTheory()


def _abs2(v):
    return v.real * v.real + v.imag * v.imag


def _flatvals(da):
    """values of a calc_* result as (npoints, ...) in flat (x-major) order"""
    v = da.values
    if 'z' in da.dims and 'x' in da.dims:
        da = da.transpose('x', 'y', 'z', ...)
        v = da.values
        return v.reshape((-1,) + v.shape[3:])
    return v


def _body(S, det, scatterer_fn, tags, npts, with_points=False):
    setup(S)
    a, b = S.real('pol_a'), S.real('pol_b')
    S.assume(a * a + b * b > 0)
    alpha = S.real('scaling')
    z = S.real('z')
    scat = scatterer_fn(z)
    theory = make_stub_theory(S)
    det_vals_before = np.array(det.values, dtype=float).copy()
    det_attrs_before = dict(det.attrs)
    kw = dict(medium_index=1.33, illum_wavelen=0.66, illum_polarization=(a, b), theory=theory)
    holo = calc_holo(det, scat, scaling=alpha, **kw)
    field = calc_field(det, scat, **kw)
    inten = calc_intensity(det, scat, **kw)
    holo0 = calc_holo(det, scat, scaling=0, **kw)
    holo_again = calc_holo(det, scat, scaling=alpha, **kw)
    hv, iv, h0, ha = (_flatvals(x).reshape(-1) for x in (holo, inten, holo0, holo_again))
    fv = field.transpose(*(['x', 'y', 'z', 'vector'] if 'x' in field.dims else ['point', 'vector'])).values.reshape(-1, 3)
    S.observe('holo', hv)
    S.claim('npoints', len(hv) == npts and fv.shape == (npts, 3))
    norm2 = a * a + b * b
    k = 2 * np.pi / (0.66 / 1.33) if not S.sym else 2 * S.pi / (0.66 / 1.33)
    for i in range(npts):
        # the field returned by calc_field = sum over spheres of stub field * exp(-i k z_sphere)
        exp_field = [0, 0, 0]
        for tag, zs in tags(z):
            ph = np.exp(-1j * k * zs)
            for c in range(3):
                exp_field[c] = exp_field[c] + S.cplx(f'{tag}{i}{"xyz"[c]}') * ph
        for c in range(3):
            S.claim_eq(f'field[{i}].{"xyz"[c]}', fv[i, c], exp_field[c])
        ex, ey = fv[i, 0], fv[i, 1]
        # |alpha E + p|^2 with p = (a,b)/|(a,b)|: written without the square root
        # (alpha Ex + a/n)(conj) ... multiply out: n = sqrt(norm2)
        n = np.sqrt(norm2)
        tx = alpha * ex + a / n
        ty = alpha * ey + b / n
        S.claim_eq(f'holo[{i}]', hv[i], _abs2(tx) + _abs2(ty))
        S.claim_eq(f'intensity[{i}]', iv[i], _abs2(ex) + _abs2(ey))
        S.claim_eq(f'scaling0_is_one[{i}]', h0[i], 1)
        S.claim_eq(f'repeat_call[{i}]', ha[i], hv[i])
    # coordinates / metadata
    for res, nm in ((holo, 'holo'), (inten, 'intensity')):
        S.claim(nm + '.dims', set(res.dims) == set(det.dims))
        for d in det.dims:
            S.claim(f'{nm}.coord_{d}', np.array_equal(np.asarray(res[d].values, dtype=float) if d != 'point' else res[d].values,
                                                       np.asarray(det[d].values, dtype=float) if d != 'point' else det[d].values))
        S.claim(nm + '.medium_index', res.attrs.get('medium_index') == 1.33)
        S.claim(nm + '.illum_wavelen', res.attrs.get('illum_wavelen') == 0.66)
        S.claim(nm + '.attrs_keys', set(res.attrs.keys()) == set(det_attrs_before.keys()) |
                {'medium_index', 'illum_wavelen', 'illum_polarization', 'noise_sd'})
        pol = res.attrs.get('illum_polarization')
        S.claim(nm + '.has_polarization', pol is not None)
        if pol is not None:
            S.claim_eq(nm + '.pol_unit', sum(p * p for p in pol.values), 1)
            S.claim_eq(nm + '.pol_dir', pol.values[0] * b - pol.values[1] * a, 0)
        S.claim(nm + '.name', res.name == det.name)
    S.claim('detector_values_untouched', np.array_equal(np.array(det.values, dtype=float), det_vals_before))
    S.claim('detector_attrs_untouched', dict(det.attrs).keys() == det_attrs_before.keys() and
            all(det.attrs[k] is det_attrs_before[k] for k in det_attrs_before))
    return scat


def _single(z):
    return Sphere(n=1.59, r=0.5, center=(0.3, 0.4, z))


def _mk_grid(shape, spacing, tier='quick'):
    tag = f"{shape[0]}x{shape[1]}"
    npts = shape[0] * shape[1]

    @obligation(f'C01.grid.{tag}', functions=FUNCS, tier=tier, timeout_s=120, nvalid=2,
                stubs=['ScatteringTheory.raw_fields := arbitrary complex field per point (symbolic)'],
                bounds=f'detector grid {tag}, spacing {spacing}, one sphere at symbolic depth z; symbolic field values '
                       '(3 complex components per pixel), polarization (a,b) of any norm, scaling')
    def ob(S):
        det = detector_grid(shape, spacing)
        s = _body(S, det, _single, lambda z: [('E50_', z)], npts)
        S.claim('scatterer_untouched', s.r == 0.5 and s.n == 1.59)
    return ob


_mk_grid((1, 1), 0.1)
_mk_grid((1, 3), 0.1)
_mk_grid((2, 2), 0.1)
_mk_grid((2, 3), (0.1, 0.25))
_mk_grid((3, 3), (0.2, 0.1), tier='thorough')
_mk_grid((3, 4), 0.1, tier='thorough')


def _mk_points(n, tier='quick'):
    @obligation(f'C01.points.{n}', functions=FUNCS, tier=tier, timeout_s=120, nvalid=2,
                stubs=['ScatteringTheory.raw_fields := arbitrary complex field per point (symbolic)'],
                bounds=f'point detector with {n} explicit (x,y,z) points, one sphere at symbolic depth z; symbolic '
                       'fields, polarization, scaling')
    def ob(S):
        xs = [0.1 * (i + 1) for i in range(n)]
        ys = [0.35 - 0.2 * i for i in range(n)]
        zs = [0.0, 0.5, -0.25, 1.0][:n]
        det = detector_points(x=xs, y=ys, z=zs)
        _body(S, det, _single, lambda z: [('E50_', z)], n)
    return ob


_mk_points(1)
_mk_points(3)
_mk_points(4, tier='thorough')


@obligation('C01.collection.2x2', functions=FUNCS, timeout_s=120, nvalid=2,
            stubs=['ScatteringTheory.raw_fields := arbitrary complex field per (sphere, point)'],
            bounds='detector grid 2x2, collection of two spheres (r=0.5 at depth z, r=0.6 at depth z+1.5): the '
                   'hologram formula holds for the superposed field')
def collection(S):
    det = detector_grid((2, 2), 0.1)

    def two(z):
        return Spheres([Sphere(n=1.59, r=0.5, center=(0.3, 0.4, z)),
                        Sphere(n=1.4, r=0.6, center=(2.3, 0.4, z + 1.5))], warn=False)
    _body(S, det, two, lambda z: [('E50_', z), ('E60_', z + 1.5)], 4)


@obligation('C01.cylindrical_theory', functions=FUNCS, timeout_s=120, nvalid=2,
            stubs=['ScatteringTheory.raw_fields := arbitrary complex field per point (symbolic)'],
            bounds='detector grid 1x2, theory declaring cylindrical kernel coordinates, cropped (shifted-origin) grid')
def cylindrical(S):
    setup(S)
    det = detector_grid((2, 3), 0.1).isel(x=slice(1, 2), y=slice(1, 3))
    a, b = S.real('pol_a'), S.real('pol_b')
    S.assume(a * a + b * b > 0)
    alpha = S.real('scaling')
    theory = make_stub_theory(S, coord='cylindrical')
    scat = Sphere(n=1.59, r=0.5, center=(0.3, 0.4, 2.0))
    kw = dict(medium_index=1.33, illum_wavelen=0.66, illum_polarization=(a, b), theory=theory)
    holo = calc_holo(det, scat, scaling=alpha, **kw)
    field = calc_field(det, scat, **kw)
    hv = _flatvals(holo).reshape(-1)
    fv = field.transpose('x', 'y', 'z', 'vector').values.reshape(-1, 3)
    S.observe('holo', hv)
    n = np.sqrt(a * a + b * b)
    for i in range(2):
        S.claim_eq(f'holo[{i}]', hv[i], _abs2(alpha * fv[i, 0] + a / n) + _abs2(alpha * fv[i, 1] + b / n))
    S.claim('coords_x', np.allclose(holo.x.values, det.x.values) and np.allclose(holo.y.values, det.y.values))


# ---------------------------------------------------------------------------
# history independence with the real analytic lens theory
# ---------------------------------------------------------------------------

@obligation('C01.history.mielens', functions=['holopy.scattering.theory.mielens.MieLens.raw_fields',
                                              'holopy.scattering.theory.mielensfunctions.MieLensCalculator.__init__',
                                              'holopy.scattering.theory.mielensfunctions.MieLensCalculator._precompute_scattering_matrices',
                                              'holopy.scattering.theory.mielensfunctions.MieLensCalculator._direct_eval_mielens_i_n',
                                              'holopy.scattering.theory.mielensfunctions.MieScatteringMatrix._eval',
                                              'holopy.scattering.theory.mielensfunctions.AlBlFunctions.calculate_al_bl'],
            stubs=['scipy.special spherical_jn/yn, j0, j1 := uninterpreted atoms'], angle_mode='atoms', timeout_s=180,
            nvalid=2, cost=3,
            bounds='the REAL MieLens calculator (2 quadrature nodes, max_l = 2) for one sphere and two lens angles, '
                   'evaluated in the orders (A, B) and - after re-importing the theory modules, i.e. fresh module '
                   'state - (B, A): each result is the same in both orders; 1 symbolic detector point, symbolic kz')
def history_mielens(S):
    import importlib
    import holopy.scattering.theory.mielensfunctions as mlf
    import holopy.scattering.theory.mielens as ml_mod
    from props.C02 import bessel_atoms
    from props.C08 import _bessel_stubs

    def fresh():
        m1 = importlib.reload(mlf)
        m2 = importlib.reload(ml_mod)
        if S.sym:
            shim_np(S, m1)
            shim_np(S, m2)
        bessel_atoms(S)
        _bessel_stubs(S)
        S.patch(m1.MieScatteringMatrix, '_default_max_l', lambda self: 2, both=True)
        return m2
    if S.sym:
        for m in (meta, utils, hm):
            shim_np(S, m)
    krho = S.real('krho', lo=0.5, hi=300)
    phi = S.angle('phi', 0, 2)
    kz = S.real('kz')
    from props import mlcommon as mc
    acc = {'quad_npts': 2, 'interpolate_integrals': False}

    def run(mod, angle):
        th = mod.MieLens(lens_angle=angle, calculator_accuracy_kwargs=acc)
        pos = mc.positions(S, [krho], [phi], kz)
        return th.raw_fields(pos, Sphere(n=1.59, r=0.5, center=(0, 0, 0)), 7.0, 1.33, mc.pol_vector(S, 0))
    A, B = 0.6, 0.9
    mod = fresh()
    a1 = run(mod, A)
    b1 = run(mod, B)
    a1_again = run(mod, A)
    mod = fresh()
    b2 = run(mod, B)
    a2 = run(mod, A)
    S.observe('a1', a1)
    S.claim_eq('B_same_after_A_as_first', b1, b2)
    S.claim_eq('A_same_after_B_as_first', a2, a1)
    S.claim_eq('A_repeatable', a1_again, a1)
