"""C02 - single-sphere solvers: the pure-Python Mie series equals the textbook series; layering by
thickness or by outer radius hands identical arguments to the coefficient kernel.  (Numerical
agreement of the Fortran solvers and Bessel-function values are outside the reach of the solver.)"""
import numpy as np

from symx import core
from symx.core import SymC, SymR
from symx.harness import obligation
from symx.shim import shim_np

LEVEL = 'translation_validation'
ASSUMPTIONS = [
    "floats are modelled as reals; spherical Bessel functions j_l, y_l and their derivatives are uninterpreted atoms",
    "agreement of mieangfuncs.f90, SCSMFO and the Python series to solver accuracy, merged/transparent-layer "
    "equivalences inside Yang's recursion and the radial options depend on Fortran numerics: outside the claim",
]

import holopy.scattering.theory.mielensfunctions as mlf
import holopy.scattering.theory.mie as mie_mod
import holopy.scattering.scatterer.sphere as sphere_mod
import holopy.core.utils as utils
from holopy.scattering.theory.mie_f import miescatlib
from holopy.scattering.scatterer import Sphere, LayeredSphere

MLF = 'holopy.scattering.theory.mielensfunctions.'


def bessel_atoms(S):
    """spherical_jn / spherical_yn := uninterpreted functions of (order, argument), separate for derivatives"""
    fs = {(k, d): S.func(f'sph_{k}{"_prime" if d else ""}', 2) for k in 'jy' for d in (False, True)}

    def mk(kind):
        def f(n, z, derivative=False):
            return fs[(kind, bool(derivative))](n, z)
        return f
    S.patch(mlf, 'spherical_jn', mk('j'), both=True)
    S.patch(mlf, 'spherical_yn', mk('y'), both=True)
    return fs


def _setup(S):
    if S.sym:
        shim_np(S, mlf)
        shim_np(S, mie_mod)
        shim_np(S, sphere_mod)
        shim_np(S, utils)


@obligation('C02.series.al_bl', functions=[MLF + 'AlBlFunctions.calculate_al_bl', MLF + 'AlBlFunctions.riccati_psin',
                                           MLF + 'AlBlFunctions.riccati_xin', MLF + 'spherical_h2n'],
            stubs=['scipy.special.spherical_jn/yn := uninterpreted atoms'], nvalid=2,
            bounds='orders l = 1..5, symbolic real relative index m and size parameter x: a_l, b_l equal the '
                   'Riccati-Bessel quotients (psi = z j, xi = z (j - i y)) written independently')
def al_bl(S):
    _setup(S)
    fs = bessel_atoms(S)
    m, x = S.real('m', pos=True), S.real('x', pos=True)
    for l in range(1, 6):
        a, b = mlf.calculate_al_bl(m, x, l)
        S.observe(f'a{l}', a)

        def psi(z):
            return z * fs[('j', False)](l, z)

        def dpsi(z):
            return z * fs[('j', True)](l, z) + fs[('j', False)](l, z)

        def xi(z):
            return z * (fs[('j', False)](l, z) - 1j * fs[('y', False)](l, z))

        def dxi(z):
            return z * (fs[('j', True)](l, z) - 1j * fs[('y', True)](l, z)) + (
                fs[('j', False)](l, z) - 1j * fs[('y', False)](l, z))
        mx = m * x
        a_ref = (psi(x) * dpsi(mx) - m * psi(mx) * dpsi(x)) / (xi(x) * dpsi(mx) - m * psi(mx) * dxi(x))
        b_ref = (m * psi(x) * dpsi(mx) - psi(mx) * dpsi(x)) / (m * xi(x) * dpsi(mx) - psi(mx) * dxi(x))
        S.claim_eq(f'a{l}', a, a_ref)
        S.claim_eq(f'b{l}', b, b_ref)


@obligation('C02.series.history', functions=[MLF + 'calculate_al_bl', MLF + 'AlBlFunctions.calculate_al_bl'],
            nvalid=1,
            bounds='a sequence of evaluations in one process: (m, x) = (1.33, 1.0000e-3), then the distinct nearby sphere '
                   '(1.33, 1.0004e-3), then (1.33, 300), then (1.3300004, 300): every call returns the coefficients of '
                   'ITS arguments (orders 1-2, SciPy Bessel functions evaluated concretely, relative tolerance 1e-7 of '
                   'the coefficient\'s own size); concrete inputs - the solver only sees constant claims here')
def al_bl_history(S):
    _setup(S)
    from scipy.special import spherical_jn as jn, spherical_yn as yn

    def ref(m, x, l):
        def psi(z):
            return z * jn(l, z)

        def dpsi(z):
            return z * jn(l, z, derivative=True) + jn(l, z)

        def xi(z):
            return z * (jn(l, z) - 1j * yn(l, z))

        def dxi(z):
            return z * (jn(l, z, derivative=True) - 1j * yn(l, z, derivative=True)) + (jn(l, z) - 1j * yn(l, z))
        mx = m * x
        return ((psi(x) * dpsi(mx) - m * psi(mx) * dpsi(x)) / (xi(x) * dpsi(mx) - m * psi(mx) * dxi(x)),
                (m * psi(x) * dpsi(mx) - psi(mx) * dpsi(x)) / (m * xi(x) * dpsi(mx) - psi(mx) * dxi(x)))
    for tag, (m, x) in (('first', (1.33, 1.0000e-3)), ('nearby_size', (1.33, 1.0004e-3)),
                        ('large', (1.33, 300.0)), ('nearby_index', (1.3300004, 300.0))):
        for l in (1, 2):
            a, b = mlf.calculate_al_bl(m, x, l)
            ar, br = ref(m, x, l)
            S.claim(f'{tag}.a{l}', bool(abs(complex(a) - complex(ar)) <= 1e-7 * abs(complex(ar))))
            S.claim(f'{tag}.b{l}', bool(abs(complex(b) - complex(br)) <= 1e-7 * abs(complex(br))))


@obligation('C02.series.pi_tau_integer_angles', functions=[MLF + 'calculate_pil_taul'], nvalid=1,
            bounds='angles given as integers (0, 1, 2, 3 rad as an integer array, and the Python int 0): the angular '
                   'functions equal those of the same angles given as floats (orders 1-5)')
def pi_tau_integer_angles(S):
    _setup(S)
    pi_i, tau_i = mlf.calculate_pil_taul(np.array([0, 1, 2, 3]), 5)
    pi_f, tau_f = mlf.calculate_pil_taul(np.array([0.0, 1.0, 2.0, 3.0]), 5)
    S.claim_eq('pi', np.asarray(pi_i, dtype=float), np.asarray(pi_f, dtype=float))
    S.claim_eq('tau', np.asarray(tau_i, dtype=float), np.asarray(tau_f, dtype=float))
    p0, t0 = mlf.calculate_pil_taul(0, 5)
    S.claim_eq('scalar_int.pi', np.asarray(p0, dtype=float).reshape(-1), np.asarray(pi_f, dtype=float)[0])
    S.claim_eq('scalar_int.tau', np.asarray(t0, dtype=float).reshape(-1), np.asarray(tau_f, dtype=float)[0])


def _legendre_derivs(c, lmax):
    """pi_l = P_l'(c), tau_l = c pi_l - (1 - c^2) pi_l'  from the Legendre polynomial coefficients"""
    P = [[1], [0, 1]]
    for n in range(1, lmax):
        # (n+1) P_{n+1} = (2n+1) c P_n - n P_{n-1}
        a = [0] + [(2 * n + 1) * v for v in P[n]]
        b = P[n - 1] + [0] * (len(a) - len(P[n - 1]))
        P.append([(a[i] - n * b[i]) / (n + 1) for i in range(len(a))])

    def ev(co):
        return sum(v * c ** i for i, v in enumerate(co))

    def d(co):
        return [i * v for i, v in enumerate(co)][1:] or [0]
    pis, taus = [], []
    for l in range(1, lmax + 1):
        p1 = d(P[l])
        p2 = d(p1)
        pis.append(ev(p1))
        taus.append(c * ev(p1) - (1 - c * c) * ev(p2))
    return pis, taus


@obligation('C02.series.pi_tau', functions=[MLF + 'calculate_pil_taul'], angle_mode='atoms', nvalid=2,
            bounds='orders l = 1..6 at 2 symbolic angles: the recurrences equal pi_l = P_l\'(cos t) and '
                   'tau_l = cos t pi_l - sin^2 t pi_l\' computed from the Legendre polynomials')
def pi_tau(S):
    _setup(S)
    th = [S.angle('theta0', 0, 1), S.angle('theta1', 0, 1)]
    arr = np.array(th, dtype=object if S.sym else float)
    pis, taus = mlf.calculate_pil_taul(arr, 6)
    S.observe('pi', pis)
    S.claim('shape', pis.shape == (2, 6) and taus.shape == (2, 6))
    for i in range(2):
        c = np.cos(th[i])
        rp, rt = _legendre_derivs(c, 6)
        for l in range(6):
            S.claim_eq(f'pi[{i},{l + 1}]', pis[i, l], rp[l])
            S.claim_eq(f'tau[{i},{l + 1}]', taus[i, l], rt[l])


@obligation('C02.series.scattering_matrix', functions=[MLF + 'MieScatteringMatrix._eval', MLF + 'calculate_pil_taul'],
            stubs=['calculate_al_bl := arbitrary complex coefficients per order'], angle_mode='atoms', nvalid=2,
            bounds='max_l = 4, 1 symbolic angle, arbitrary coefficients: S_perp = sum (2l+1)/(l(l+1)) (a_l pi_l + b_l '
                   'tau_l), S_par = sum (2l+1)/(l(l+1)) (a_l tau_l + b_l pi_l)')
def scattering_matrix(S):
    _setup(S)
    coeffs = {l: (S.cplx(f'a{l}'), S.cplx(f'b{l}')) for l in range(1, 5)}
    S.patch(mlf, 'calculate_al_bl', lambda m, x, l: coeffs[l], both=True)
    th = S.angle('theta', 0, 1)
    arr = np.array([th], dtype=object if S.sym else float)
    c = np.cos(th)
    rp, rt = _legendre_derivs(c, 4)
    for kind in ('perpendicular', 'parallel'):
        ev = mlf.MieScatteringMatrix(parallel_or_perpendicular=kind, index_ratio=1.2, size_parameter=3.0, max_l=4)
        got = ev(arr)
        S.observe(kind, got)
        ref = 0
        for l in range(1, 5):
            a, b = coeffs[l]
            w = (2 * l + 1) / (l * (l + 1))
            ref = ref + w * ((a * rp[l - 1] + b * rt[l - 1]) if kind == 'perpendicular' else
                             (a * rt[l - 1] + b * rp[l - 1]))
        S.claim_eq(kind, got[0], ref)


@obligation('C02.layers.thickness_vs_radius', functions=['holopy.scattering.theory.mie.Mie._scat_coeffs',
                                                         'holopy.scattering.scatterer.sphere.LayeredSphere.r'],
            stubs=['scatcoeffs_multi / miescatlib.scatcoeffs / nstop := argument recorders'], nvalid=2,
            bounds='1-4 layers with symbolic thicknesses and indices, symbolic wavevector and medium index: '
                   'Sphere(r = cumulative thickness) and LayeredSphere(t) hand identical (m, x, eps) arrays to the '
                   'coefficient kernel')
def layers(S):
    _setup(S)
    S.patch(mie_mod, '_COMPILED_FORTRAN', True, both=True)
    rec = []

    def multi(m_arr, x_arr, eps1, eps2):
        rec.append(('multi', list(m_arr), list(x_arr), eps1, eps2))
        return 'COEFFS'

    class _Lib:
        @staticmethod
        def nstop(x):
            rec.append(('nstop', x))
            return 3

        @staticmethod
        def scatcoeffs(m, x, lmax, eps1, eps2):
            rec.append(('single', [m], [x], eps1, eps2))
            return 'COEFFS'
    S.patch(mie_mod, 'scatcoeffs_multi', multi, both=True)
    S.patch(mie_mod, 'miescatlib', _Lib, both=True)
    theory = mie_mod.Mie()
    k, nm = S.real('k', lo=0.1, hi=100), S.real('n_medium', pos=True)
    for nl in (1, 2, 3, 4):
        ts = [S.real(f't{nl}_{i}', lo=0.001, hi=2) for i in range(nl)]
        ns = [S.real(f'n{nl}_{i}', pos=True) for i in range(nl)]
        radii = []
        acc = 0
        for t in ts:
            acc = acc + t
            radii.append(acc)
        by_r = Sphere(n=ns if nl > 1 else ns[0], r=radii if nl > 1 else radii[0], center=(0, 0, 0))
        by_t = LayeredSphere(n=ns, t=ts, center=(0, 0, 0))
        del rec[:]
        theory._scat_coeffs(by_r, k, nm)
        a = [r for r in rec if r[0] != 'nstop'][-1]
        del rec[:]
        theory._scat_coeffs(by_t, k, nm)
        b = [r for r in rec if r[0] != 'nstop'][-1]
        S.claim(f'layers{nl}.same_kernel', a[0] == b[0])
        S.claim_eq(f'layers{nl}.m', np.array(b[1], dtype=object if S.sym else float),
                   np.array(a[1], dtype=object if S.sym else float))
        S.claim_eq(f'layers{nl}.x', np.array(b[2], dtype=object if S.sym else float),
                   np.array(a[2], dtype=object if S.sym else float))
        S.claim(f'layers{nl}.eps', a[3:] == b[3:])
        for i in range(nl):
            S.claim_eq(f'layers{nl}.x{i}_is_k_r', a[2][i], k * radii[i])
            S.claim_eq(f'layers{nl}.m{i}_is_n_over_nmed', a[1][i], ns[i] / nm)
    S.observe('k', k)
