"""C03 - cross sections: energy conservation and the textbook series (the optical theorem against the
Fortran amplitude functions, the sign of absorption, the Rayleigh limit and Multisphere agreement
are properties of compiled numerical kernels and outside the reach of the solver)."""
import numpy as np

from symx import core
from symx.harness import obligation
from symx.shim import shim_np

LEVEL = 'translation_validation'
ASSUMPTIONS = [
    "floats are modelled as reals",
    "the Mie coefficients a_l, b_l are arbitrary complex numbers (output of the stubbed _scat_coeffs): the identities "
    "hold for every coefficient vector, in particular the real solver's",
    "optical theorem vs asm_mie_far, absorption >= 0, Rayleigh limit, Multisphere one-sphere agreement: Fortran "
    "numerics, outside the claim",
]

import holopy.scattering.theory.mie as mie_mod
import holopy.scattering.interface as iface
import holopy.scattering.imageformation as imf
import holopy.core.metadata as meta
import holopy.core.utils as utils
from holopy.scattering.theory.mie_f import miescatlib
from holopy.scattering.scatterer import Sphere, Spheres
from holopy.scattering.errors import InvalidScatterer

ML = 'holopy.scattering.theory.mie_f.miescatlib.'


def _setup(S):
    if S.sym:
        for m in (miescatlib, mie_mod, iface, imf, meta, utils):
            shim_np(S, m)


def _coeffs(S, lmax):
    al = np.array([S.cplx(f'a{l}') for l in range(1, lmax + 1)], dtype=object if S.sym else complex)
    bl = np.array([S.cplx(f'b{l}') for l in range(1, lmax + 1)], dtype=object if S.sym else complex)
    return al, bl


def _abs2(z):
    return z.real * z.real + z.imag * z.imag


def _re_conj(a, b):
    """Re(a conj(b))"""
    return a.real * b.real + a.imag * b.imag


def ref_cross_sections(al, bl):
    L = len(al)
    csca = sum((2 * l + 1) * (_abs2(al[l - 1]) + _abs2(bl[l - 1])) for l in range(1, L + 1))
    cext = sum((2 * l + 1) * (al[l - 1].real + bl[l - 1].real) for l in range(1, L + 1))
    s = sum((2 * l + 1) * (-1) ** l * (al[l - 1] - bl[l - 1]) for l in range(1, L + 1))
    return csca, cext, _abs2(s)


def ref_asym(al, bl):
    """Bohren & Huffman p.120, without the prefactor 4/(x^2 Q_sca)"""
    L = len(al)
    t = 0
    for l in range(1, L):
        t = t + l * (l + 2) / (l + 1) * (_re_conj(al[l - 1], al[l]) + _re_conj(bl[l - 1], bl[l]))
    for l in range(1, L + 1):
        t = t + (2 * l + 1) / (l * (l + 1)) * _re_conj(al[l - 1], bl[l - 1])
    return t


def _mk_series(lmax, tier='quick'):
    @obligation(f'C03.series.lmax{lmax}', functions=[ML + 'cross_sections', ML + 'asymmetry_parameter'], tier=tier,
                nvalid=2, bounds=f'{lmax} multipole orders, arbitrary complex a_l, b_l: scattering / extinction / '
                                 'backscatter sums and the asymmetry sum equal Bohren-Huffman eqs 4.61, 4.62, p.120 '
                                 'written independently')
    def ob(S):
        _setup(S)
        al, bl = _coeffs(S, lmax)
        got = miescatlib.cross_sections(al, bl)
        S.observe('cs', got)
        csca, cext, cback = ref_cross_sections(al, bl)
        S.claim_eq('scattering', got[0], csca)
        S.claim_eq('extinction', got[1], cext)
        S.claim_eq('backscatter', got[2], cback)
        S.claim_ge('scattering_nonnegative', got[0], 0)
        g = miescatlib.asymmetry_parameter(al, bl)
        S.claim_eq('asymmetry_sum', g, ref_asym(al, bl))
    return ob


for _l in (1, 2, 3, 4):
    _mk_series(_l)
_mk_series(6, 'thorough')


def _mie_with_stub(S, lmax, log):
    S.patch(mie_mod, '_COMPILED_FORTRAN', True, both=True)
    S.patch(mie_mod, 'miescatlib', miescatlib, both=True)
    theory = mie_mod.Mie()
    al, bl = _coeffs(S, lmax)

    def _scat_coeffs(self, s, medium_wavevec, medium_index):
        log.append((s, medium_wavevec, medium_index))
        return np.array([al, bl])
    S.patch(mie_mod.Mie, '_scat_coeffs', _scat_coeffs, both=True)
    return theory, al, bl


@obligation('C03.mie.raw_cross_sections', functions=['holopy.scattering.theory.mie.Mie.raw_cross_sections',
                                                     'holopy.scattering.interface.calc_cross_sections',
                                                     'holopy.scattering.imageformation.ImageFormation.calculate_cross_sections',
                                                     ML + 'cross_sections', ML + 'asymmetry_parameter'],
            stubs=['Mie._scat_coeffs := arbitrary complex coefficients (3 orders)'], nvalid=2, timeout_s=120,
            bounds='3 multipole orders, arbitrary coefficients, symbolic wavelength and medium index: extinction = '
                   'scattering + absorption, order [sca, abs, ext, g], prefactor 2 pi/k^2 with k = 2 pi n_m/lambda, '
                   'g = 2*asym/sum, scattering >= 0; sphere collections rejected')
def mie_cross_sections(S):
    _setup(S)
    log = []
    theory, al, bl = _mie_with_stub(S, 3, log)
    wl, nm = S.real('wavelen', pos=True), S.real('n_medium', pos=True)
    sph = Sphere(n=1.59, r=0.5, center=(0, 0, 0))
    from holopy.scattering import calc_cross_sections
    res = calc_cross_sections(sph, medium_index=nm, illum_wavelen=wl, illum_polarization=(1, 0), theory=theory)
    vals = res.values
    S.observe('cs', vals)
    S.claim('labels', list(res.cross_section.values) == ['scattering', 'absorbtion', 'extinction', 'assymetry'])
    k = log[0][1]
    two_pi = 2 * S.pi if S.sym else 2 * np.pi
    S.claim_eq('wavevector', k, two_pi * nm / wl)
    S.claim_eq('medium_index_passed', log[0][2], nm)
    csca, cext, _ = ref_cross_sections(al, bl)
    S.assume(csca > 0)
    pre = two_pi / (k * k)
    S.claim_eq('scattering', vals[0], pre * csca)
    S.claim_eq('extinction', vals[2], pre * cext)
    S.claim_eq('energy_conservation', vals[2], vals[0] + vals[1])
    S.claim_ge('scattering_nonnegative', vals[0], 0)
    S.claim_eq('asymmetry', vals[3] * csca, 2 * ref_asym(al, bl))
    try:
        theory.raw_cross_sections(Spheres([sph, Sphere(n=1.59, r=0.5, center=(5, 0, 0))], warn=False), k, nm, None)
        ok = False
    except InvalidScatterer:
        ok = True
    S.claim('collections_rejected', ok)


def _mk_gbound(lmax, tier='quick'):
    @obligation(f'C03.asymmetry_bound.lmax{lmax}', functions=[ML + 'cross_sections', ML + 'asymmetry_parameter'],
                tier=tier, nvalid=2, timeout_s=240,
                bounds=f'{lmax} multipole orders, arbitrary complex coefficients: |g| <= 1, i.e. |2*asym| <= '
                       'sum (2l+1)(|a_l|^2+|b_l|^2)')
    def ob(S):
        _setup(S)
        al, bl = _coeffs(S, lmax)
        cs = miescatlib.cross_sections(al, bl)
        g2 = 2 * miescatlib.asymmetry_parameter(al, bl)
        S.observe('g2', g2)
        S.claim_le('g_le_1', g2, cs[0])
        S.claim_le('g_ge_minus_1', -g2, cs[0])
    return ob


_mk_gbound(1)
_mk_gbound(2, 'thorough')
_mk_gbound(3, 'thorough')


@obligation('C03.mie.history_two_wavelengths', functions=['holopy.scattering.theory.mie.Mie._scat_coeffs',
                                                          'holopy.scattering.theory.mie.Mie.raw_cross_sections',
                                                          ML + 'cross_sections'],
            stubs=['miescatlib.scatcoeffs := uninterpreted coefficients a_l(m, x), b_l(m, x) (3 orders); nstop := 3'],
            nvalid=2, timeout_s=120,
            bounds='ONE Mie object used for the same sphere and medium at two symbolic wavelengths (then the first '
                   'again): every result is built from the coefficients at ITS size parameter k r, with ITS prefactor '
                   '2 pi/k^2')
def mie_history(S):
    _setup(S)
    S.patch(mie_mod, '_COMPILED_FORTRAN', True, both=True)
    A = [S.cfunc(f'a{l}', 2) for l in (1, 2, 3)]
    B = [S.cfunc(f'b{l}', 2) for l in (1, 2, 3)]

    class _Lib:
        cross_sections = staticmethod(miescatlib.cross_sections)
        asymmetry_parameter = staticmethod(miescatlib.asymmetry_parameter)

        @staticmethod
        def nstop(x):
            return 3

        @staticmethod
        def scatcoeffs(m, x, lmax, eps1, eps2):
            obj = object if S.sym else complex
            return np.array([[f(m, x) for f in A], [f(m, x) for f in B]], dtype=obj)
    S.patch(mie_mod, 'miescatlib', _Lib, both=True)
    theory = mie_mod.Mie()
    r, n, nm = 0.5, 1.59, 1.33          # concrete sphere and medium: only the wavelength changes between calls
    k1, k2 = S.real('k1', lo=1, hi=50), S.real('k2', lo=1, hi=50)
    S.assume(k1 != k2)
    sph = Sphere(n=n, r=r, center=(0, 0, 0))
    two_pi = 2 * S.pi if S.sym else 2 * np.pi

    def expected(k):
        al = [f(n / nm, k * r) for f in A]
        bl = [f(n / nm, k * r) for f in B]
        csca, cext, _ = ref_cross_sections(al, bl)
        return two_pi / (k * k) * csca, two_pi / (k * k) * cext
    S.assume(ref_cross_sections([f(n / nm, k1 * r) for f in A], [f(n / nm, k1 * r) for f in B])[0] > 0)
    S.assume(ref_cross_sections([f(n / nm, k2 * r) for f in A], [f(n / nm, k2 * r) for f in B])[0] > 0)
    for tag, k in (('first', k1), ('second_wavelength', k2), ('first_again', k1)):
        cs = theory.raw_cross_sections(sph, k, nm, None)
        if tag == 'first':
            S.observe('cs', cs[0])
        sca, ext = expected(k)
        S.claim_eq(f'{tag}.scattering', cs[0], sca)
        S.claim_eq(f'{tag}.extinction', cs[2], ext)
