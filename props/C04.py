"""C04 - results depend only on dimensionless ratios: every argument the Python layers hand to a
scattering kernel is invariant under a common length scale c > 0 and under
(n, n_m, lambda) -> (n/n_m, 1, lambda/n_m); cross sections scale with c^2.  (Homogeneity of the
kernels themselves - Fortran, quadrature - is outside the reach of the solver.)"""
import numpy as np

from symx import core
from symx.harness import obligation
from symx.shim import shim_np

LEVEL = 'model_checking'
ASSUMPTIONS = [
    "floats are modelled as reals",
    "kernels (Fortran Mie/SCSMFO/T-matrix, lens-pupil integrals) are functions of exactly the recorded arguments; "
    "their own homogeneity is outside the claim",
    "T-matrix receives dimensional (axi, lam): only the invariance of their ratio and of the other arguments is decided",
]

import holopy.scattering.imageformation as imf
import holopy.scattering.interface as iface
import holopy.scattering.theory.mie as mie_mod
import holopy.scattering.theory.multisphere as ms_mod
import holopy.scattering.theory.tmatrix as tm_mod
import holopy.scattering.scatterer.spherecluster as sc_mod
import holopy.scattering.scatterer.composite as comp_mod
import holopy.core.math as hm
from holopy.core.metadata import detector_points
from holopy.scattering.scatterer import Sphere, Spheres, Spheroid, Cylinder
from holopy.scattering.errors import InvalidScatterer
from holopy.scattering.theory.scatteringtheory import ScatteringTheory
from holopy.scattering.theory.mielens import MieLens
from holopy.scattering import calc_field

from props.C01 import setup as c01_setup
from props import mlcommon as mc
from props.C03 import _mie_with_stub, _setup as c03_setup


class Rec(ScatteringTheory):
    """records what the image-formation layer hands to a kernel"""

    def __init__(self, S=None, coord='spherical', log=None):
        self.desired_coordinate_system = coord
        self.S = S
        self.log = log

    def can_handle(self, s):
        return isinstance(s, Sphere)

    def raw_fields(self, pos, scatterer, medium_wavevec, medium_index, illum_polarization):
        self.log.append(dict(pos=pos, x=medium_wavevec * scatterer.r, m=scatterer.n / medium_index,
                             pol=illum_polarization.values, kz=medium_wavevec * scatterer.center[2]))
        n = pos.shape[1]
        out = np.empty((3, n), dtype=object if self.S.sym else complex)
        for i in range(n):
            for c in range(3):
                out[c, i] = self.S.cplx(f'E{i}{c}')
        return out


def _arr(S, v):
    return np.array(v, dtype=object if S.sym else float)


def _configs(S):
    """(label, lengths multiplier, (n, n_m, lambda)) for the reference, the rescaled and the index-normalised run"""
    c = S.real('c', pos=True)
    n, nm, lam = S.real('n', pos=True), S.real('n_medium', pos=True), S.real('wavelen', pos=True)
    return c, [('reference', 1, (n, nm, lam)), ('rescaled', c, (n, nm, c * lam)),
               ('index_normalised', 1, (n / nm, 1, lam / nm))]


def _imageformation_body(S, coord):
    c01_setup(S)
    c, cfgs = _configs(S)
    xs = [S.real('x0'), S.real('x1')]
    ys = [S.real('y0'), S.real('y1')]
    zs = [S.real('zdet0'), S.real('zdet1')]          # detector points off the z = 0 plane
    ctr = [S.real('cx'), S.real('cy'), S.real('cz')]
    r = S.real('r', pos=True)
    logs = {}
    fields = {}
    for label, mult, (n, nm, lam) in cfgs:
        log = []
        det = detector_points(x=_arr(S, [mult * x for x in xs]), y=_arr(S, [mult * y for y in ys]),
                              z=_arr(S, [mult * z for z in zs]))
        sph = Sphere(n=n, r=mult * r, center=[mult * v for v in ctr])
        f = calc_field(det, sph, medium_index=nm, illum_wavelen=lam, illum_polarization=(1, 0),
                       theory=Rec(S, coord, log))
        logs[label] = log[0]
        fields[label] = f.values
    ref = logs['reference']
    S.observe('pos', ref['pos'])
    # the kernel position arguments themselves, against the documented convention
    # (lengths in units of 1/k, z measured from the detector point towards the particle)
    n, nm, lam = cfgs[0][2]
    k = 2 * (S.pi if S.sym else np.pi) * nm / lam
    for i in range(2):
        dx, dy, dz = xs[i] - ctr[0], ys[i] - ctr[1], ctr[2] - zs[i]
        if coord == 'cylindrical':
            S.claim_eq(f'reference.rho2[{i}]', ref['pos'][0][i] ** 2, k * k * (dx * dx + dy * dy))
            S.claim_eq(f'reference.kz[{i}]', ref['pos'][2][i], k * dz)
            S.claim_eq(f'reference.rho_cos_phi[{i}]', ref['pos'][0][i] * np.cos(ref['pos'][1][i]), k * dx)
            S.claim_eq(f'reference.rho_sin_phi[{i}]', ref['pos'][0][i] * np.sin(ref['pos'][1][i]), k * dy)
        else:
            rr = ref['pos'][0][i]
            S.claim_eq(f'reference.r2[{i}]', rr ** 2, k * k * (dx * dx + dy * dy + dz * dz))
            S.claim_eq(f'reference.r_cos_theta[{i}]', rr * np.cos(ref['pos'][1][i]), k * dz)
            rho_xy = np.sqrt(k * k * (dx * dx + dy * dy))
            S.claim_eq(f'reference.r_sin_theta[{i}]', rr * np.sin(ref['pos'][1][i]), rho_xy)
            S.claim_eq(f'reference.rho_cos_phi[{i}]', rho_xy * np.cos(ref['pos'][2][i]), k * dx)
            S.claim_eq(f'reference.rho_sin_phi[{i}]', rho_xy * np.sin(ref['pos'][2][i]), k * dy)
    for label in ('rescaled', 'index_normalised'):
        got = logs[label]
        S.claim_eq(f'{label}.positions', got['pos'], ref['pos'])
        S.claim_eq(f'{label}.size_parameter', got['x'], ref['x'])
        S.claim_eq(f'{label}.relative_index', got['m'], ref['m'])
        S.claim_eq(f'{label}.phase_argument', got['kz'], ref['kz'])
        S.claim_eq(f'{label}.field', fields[label], fields['reference'])


IFF = ['holopy.scattering.imageformation.ImageFormation._transform_to_desired_coordinates',
       'holopy.scattering.imageformation.ImageFormation._get_field_from',
       'holopy.scattering.imageformation.get_wavevec_from', 'holopy.scattering.interface.calc_field',
       'holopy.scattering.interface.prep_schema']


@obligation('C04.imageformation.spherical', functions=IFF, angle_mode='atoms', timeout_s=180, nvalid=2,
            stubs=['raw_fields := recorder + arbitrary field per point'],
            bounds='2 symbolic detector points, symbolic centre, radius, index, medium index, wavelength, scale c>0: '
                   'kernel positions (kr, theta, phi), size parameter, relative index, phase argument and the field '
                   'are unchanged by the length scale and by the index normalisation')
def if_spherical(S):
    _imageformation_body(S, 'spherical')


@obligation('C04.imageformation.cylindrical', functions=IFF, angle_mode='atoms', timeout_s=180, nvalid=2,
            stubs=['raw_fields := recorder + arbitrary field per point'],
            bounds='same for kernels working in cylindrical coordinates (k rho, phi, k z)')
def if_cylindrical(S):
    _imageformation_body(S, 'cylindrical')


@obligation('C04.mielens.kernel_arguments', functions=mc.ML_FUNCS, stubs=mc.ML_STUBS, nvalid=2, timeout_s=120,
            angle_mode='atoms',
            bounds='MieLens.raw_fields glue: (particle_kz, index_ratio, size_parameter) handed to the calculator are '
                   'unchanged by the length scale / index normalisation (1 symbolic point)')
def mielens_args(S):
    mc.setup(S)
    log = []
    mc.install_stub_calculator(S, log)
    theory = MieLens(lens_angle=0.9)
    c, cfgs = _configs(S)
    r = S.real('r', pos=True)
    rho, phi, z = S.real('rho', lo=0, hi=20), S.angle('phi', 0, 2), S.real('z')
    out = {}
    for label, mult, (n, nm, lam) in cfgs:
        k = 2 * (S.pi if S.sym else np.pi) / (lam / nm)
        del log[:]
        pos = mc.positions(S, [k * mult * rho], [phi], k * mult * z)
        theory.raw_fields(pos, Sphere(n=n, r=mult * r, center=(0, 0, 0)), k, nm, mc.pol_vector(S, 0))
        out[label] = dict(log[0])
    S.observe('x', out['reference']['size_parameter'])
    for label in ('rescaled', 'index_normalised'):
        for key in ('particle_kz', 'index_ratio', 'size_parameter'):
            S.claim_eq(f'{label}.{key}', out[label][key], out['reference'][key])


@obligation('C04.mie.kernel_arguments_and_cross_sections',
            functions=['holopy.scattering.theory.mie.Mie._scat_coeffs', 'holopy.scattering.theory.mie.Mie.raw_cross_sections',
                       'holopy.scattering.interface.calc_cross_sections'],
            stubs=['miescatlib.scatcoeffs/nstop, scatcoeffs_multi := recorders', '_scat_coeffs := arbitrary coefficients'],
            nvalid=2, timeout_s=120,
            bounds='Mie glue for a uniform and a 2-layer sphere: (m, x) handed to the coefficient kernel unchanged; '
                   'cross sections multiply by c^2 under the length scale and are unchanged by the index '
                   'normalisation; asymmetry unchanged')
def mie_args(S):
    c03_setup(S)
    S.patch(mie_mod, '_COMPILED_FORTRAN', True, both=True)
    rec = []

    class _Lib:
        @staticmethod
        def nstop(x):
            return 3

        @staticmethod
        def scatcoeffs(m, x, lmax, eps1, eps2):
            rec.append(([m], [x]))
            return 'C'
    S.patch(mie_mod, 'miescatlib', _Lib, both=True)
    S.patch(mie_mod, 'scatcoeffs_multi', lambda m, x, e1, e2: rec.append((list(m), list(x))) or 'C', both=True)
    theory = mie_mod.Mie()
    c, cfgs = _configs(S)
    r1, r2 = S.real('r1', lo=0.01, hi=2), S.real('r2', lo=0.01, hi=2)
    n2 = S.real('n_outer', pos=True)
    got = {}
    for label, mult, (n, nm, lam) in cfgs:
        k = 2 * (S.pi if S.sym else np.pi) / (lam / nm)
        S.assume(k * (r1 + r2) * mult < 900)
        S.assume(k * r1 * mult < 900)
        scale_n = 1 if label != 'index_normalised' else None
        n_out = n2 if label != 'index_normalised' else n2 / cfgs[0][2][1]
        del rec[:]
        theory._scat_coeffs(Sphere(n=n, r=mult * r1, center=(0, 0, 0)), k, nm)
        theory._scat_coeffs(Sphere(n=[n, n_out], r=[mult * r1, mult * (r1 + r2)], center=(0, 0, 0)), k, nm)
        got[label] = list(rec)
    S.observe('x', got['reference'][0][1][0])
    for label in ('rescaled', 'index_normalised'):
        for j, kind in enumerate(('uniform', 'layered')):
            S.claim_eq(f'{label}.{kind}.m', _arr(S, got[label][j][0]), _arr(S, got['reference'][j][0]))
            S.claim_eq(f'{label}.{kind}.x', _arr(S, got[label][j][1]), _arr(S, got['reference'][j][1]))
    # cross sections
    from holopy.scattering.theory.mie_f import miescatlib
    log = []
    theory2, al, bl = _mie_with_stub(S, 2, log)
    from props.C03 import ref_cross_sections
    S.assume(ref_cross_sections(al, bl)[0] > 0)
    from holopy.scattering import calc_cross_sections
    cs = {}
    for label, mult, (n, nm, lam) in cfgs:
        cs[label] = calc_cross_sections(Sphere(n=n, r=mult * r1, center=(0, 0, 0)), medium_index=nm,
                                        illum_wavelen=lam, illum_polarization=(1, 0), theory=theory2).values
    for i, nm_ in enumerate(('scattering', 'absorption', 'extinction')):
        S.claim_eq(f'rescaled.{nm_}_times_c2', cs['rescaled'][i], c * c * cs['reference'][i])
        S.claim_eq(f'index_normalised.{nm_}', cs['index_normalised'][i], cs['reference'][i])
    S.claim_eq('rescaled.asymmetry', cs['rescaled'][3], cs['reference'][3])
    S.claim_eq('index_normalised.asymmetry', cs['index_normalised'][3], cs['reference'][3])


class _Stop(Exception):
    pass


@obligation('C04.multisphere.kernel_arguments', functions=['holopy.scattering.theory.multisphere.Multisphere._scsmfo_setup'],
            stubs=['scsmfo_min.amncalc := argument recorder'], nvalid=2, timeout_s=120,
            bounds='2 spheres with symbolic centres/radii/indices: the nondimensional centres, size parameters and '
                   'relative indices handed to SCSMFO are unchanged by the length scale / index normalisation')
def multisphere_args(S):
    if S.sym:
        for m in (ms_mod, sc_mod, comp_mod, hm):
            shim_np(S, m)
    rec = []

    class _F:
        @staticmethod
        def amncalc(*args):
            rec.append(args)
            raise _Stop()
    S.patch(ms_mod, '_COMPILED_FORTRAN', True, both=True) if hasattr(ms_mod, '_COMPILED_FORTRAN') else None
    S.patch(ms_mod, 'scsmfo_min', _F, both=True)
    theory = ms_mod.Multisphere.__new__(ms_mod.Multisphere)
    theory.niter, theory.eps, theory.meth, theory.qeps1, theory.qeps2 = 200, 1e-6, 1, 1e-5, 1e-8
    theory.compute_escat_radial = False
    theory.suppress_fortran_output = True
    c, cfgs = _configs(S)
    ctrs = [[S.real(f's{i}{ax}', lo=-3, hi=3) for ax in 'xyz'] for i in range(2)]
    rs = [S.real('ra', lo=0.01, hi=1), S.real('rb', lo=0.01, hi=1)]
    n_b = S.real('n_b', pos=True)
    got = {}
    for label, mult, (n, nm, lam) in cfgs:
        k = 2 * (S.pi if S.sym else np.pi) / (lam / nm)
        S.assume(k * mult < 100)
        nb = n_b if label != 'index_normalised' else n_b / cfgs[0][2][1]
        sp = Spheres([Sphere(n=n, r=mult * rs[0], center=[mult * v for v in ctrs[0]]),
                      Sphere(n=nb, r=mult * rs[1], center=[mult * v for v in ctrs[1]])], warn=False)
        del rec[:]
        try:
            theory._scsmfo_setup(sp, k, nm)
        except _Stop:
            pass
        a = rec[0]
        got[label] = dict(x=a[1], y=a[2], z=a[3], m_re=a[4], m_im=a[5], size=a[6])
    S.observe('size', got['reference']['size'])
    for label in ('rescaled', 'index_normalised'):
        for key in ('x', 'y', 'z', 'm_re', 'm_im', 'size'):
            S.claim_eq(f'{label}.{key}', got[label][key], got['reference'][key])


@obligation('C04.tmatrix.kernel_arguments', functions=['holopy.scattering.theory.tmatrix.Tmatrix._parse_args'],
            nvalid=2, timeout_s=120,
            bounds='spheroid and cylinder with symbolic semi-axes: aspect ratio, relative index, angles and the ratio '
                   'axi/lam are unchanged by the length scale / index normalisation (axi and lam themselves are '
                   'dimensional: the kernel\'s homogeneity is outside the claim)')
def tmatrix_args(S):
    if S.sym:
        shim_np(S, tm_mod)
    theory = tm_mod.Tmatrix.__new__(tm_mod.Tmatrix)
    c, cfgs = _configs(S)
    a, b = S.real('a', pos=True), S.real('b', pos=True)
    pos = np.array([[S.real('kr', pos=True)], [S.angle('theta', 0, 1)], [S.angle('phi', 0, 2)]],
                   dtype=object if S.sym else float)
    for shape in ('spheroid', 'cylinder'):
        got = {}
        for label, mult, (n, nm, lam) in cfgs:
            k = 2 * (S.pi if S.sym else np.pi) / (lam / nm)
            if shape == 'spheroid':
                sc = Spheroid(n=n, r=(mult * a, mult * b), center=(0, 0, 0), rotation=(0, 0.3, 0.2))
            else:
                sc = Cylinder(n=n, d=mult * a, h=mult * b, center=(0, 0, 0), rotation=(0, 0.3, 0.2))
            sc.n = n + 0j if not S.sym else core.SymC(n, 0)
            try:
                args = theory._parse_args(sc, pos, k, nm)
            except InvalidScatterer:
                got[label] = None       # too large for the T-matrix code: must be so in every configuration
                continue
            got[label] = dict(ratio=args[0] / args[2], mrr=args[3], mri=args[4], eps=args[5], np_=args[6],
                              alpha=args[8], beta=args[9], thet=args[11], phi=args[13])
        for label in ('rescaled', 'index_normalised'):
            S.claim(f'{shape}.{label}.same_size_verdict', (got[label] is None) == (got['reference'] is None))
        if any(v is None for v in got.values()):
            continue
        S.observe(shape, got['reference']['eps'])
        for label in ('rescaled', 'index_normalised'):
            for key in ('ratio', 'mrr', 'mri', 'eps', 'alpha', 'beta', 'thet', 'phi'):
                S.claim_eq(f'{shape}.{label}.{key}', got[label][key], got['reference'][key])
            S.claim(f'{shape}.{label}.np', got[label]['np_'] == got['reference']['np_'])


@obligation('C04.lens.inner_theory_arguments', functions=['holopy.scattering.theory.lens.Lens._calc_scattering_matrix'],
            stubs=['inner theory raw_scat_matrs := argument recorder'], nvalid=2,
            bounds='Lens wrapper with 2x2 quadrature nodes: the wrapped theory receives the medium wavevector and medium '
                   'index it was given (so its size parameter k*r and relative index n/n_m are unchanged by the length '
                   'scale and the index normalisation)')
def lens_inner_arguments(S):
    import holopy.scattering.theory.lens as lens_mod
    from holopy.scattering.theory.lens import Lens
    if S.sym:
        shim_np(S, lens_mod)
    rec = []

    class Inner:
        def can_handle(self, s):
            return True

        def raw_scat_matrs(self, scatterer, pos, medium_wavevec, medium_index):
            rec.append(dict(x=medium_wavevec * scatterer.r, m=scatterer.n / medium_index, k=medium_wavevec,
                            nm=medium_index, theta=pos[1], phi=pos[2]))
            return np.zeros((pos.shape[1], 2, 2), dtype=complex)
    lens = Lens.__new__(Lens)
    lens.theory = Inner()
    lens.quad_npts_theta = lens.quad_npts_phi = 2
    lens._theta_pts = np.array([0.2, 0.5]).reshape(-1, 1, 1)
    lens._phi_pts = np.array([0.0, np.pi]).reshape(1, -1, 1)
    c, cfgs = _configs(S)
    r = S.real('r', pos=True)
    got = {}
    for label, mult, (n, nm, lam) in cfgs:
        k = 2 * (S.pi if S.sym else np.pi) / (lam / nm)
        del rec[:]
        lens._calc_scattering_matrix(Sphere(n=n, r=mult * r, center=(0, 0, 0)), k, nm)
        got[label] = rec[0]
        S.claim_eq(f'{label}.wavevector_passed_through', rec[0]['k'], k)
        S.claim_eq(f'{label}.medium_index_passed_through', rec[0]['nm'], nm)
    S.observe('x', got['reference']['x'])
    for label in ('rescaled', 'index_normalised'):
        S.claim_eq(f'{label}.size_parameter', got[label]['x'], got['reference']['x'])
        S.claim_eq(f'{label}.relative_index', got[label]['m'], got['reference']['m'])


@obligation('C04.imageformation.spherical_detector', functions=IFF, timeout_s=120, nvalid=2,
            stubs=['raw_fields := recorder + arbitrary field per point'],
            bounds='points detector given in spherical form with 2 finite symbolic radii (angles concrete): the kernel '
                   'receives k*r, theta, phi; unchanged by the length scale and the index normalisation')
def if_spherical_detector(S):
    c01_setup(S)
    c, cfgs = _configs(S)
    rd = [S.real('rdet0', pos=True), S.real('rdet1', pos=True)]
    th, ph = [0.3, 1.2], [0.4, 2.5]
    r = S.real('r', pos=True)
    logs = {}
    for label, mult, (n, nm, lam) in cfgs:
        log = []
        det = detector_points(r=_arr(S, [mult * v for v in rd]), theta=list(th), phi=list(ph))
        sph = Sphere(n=n, r=mult * r, center=[0.0, 0.0, 0.0])
        calc_field(det, sph, medium_index=nm, illum_wavelen=lam, illum_polarization=(1, 0),
                   theory=Rec(S, 'spherical', log))
        logs[label] = log[0]
    ref = logs['reference']
    n, nm, lam = cfgs[0][2]
    k = 2 * (S.pi if S.sym else np.pi) * nm / lam
    S.observe('kr', ref['pos'][0])
    for i in range(2):
        S.claim_eq(f'reference.kr[{i}]', ref['pos'][0][i], k * rd[i])
        S.claim_eq(f'reference.theta[{i}]', ref['pos'][1][i], th[i])
        S.claim_eq(f'reference.phi[{i}]', ref['pos'][2][i], ph[i])
    for label in ('rescaled', 'index_normalised'):
        S.claim_eq(f'{label}.positions', logs[label]['pos'], ref['pos'])
        S.claim_eq(f'{label}.size_parameter', logs[label]['x'], ref['x'])
        S.claim_eq(f'{label}.relative_index', logs[label]['m'], ref['m'])


@obligation('C04.mielens.kernel_arguments_absorbing', functions=mc.ML_FUNCS, stubs=['MieLens._create_calculator := recorder'], nvalid=2, timeout_s=120,
            angle_mode='atoms', max_paths=200,
            bounds='MieLens.raw_fields glue with a complex (absorbing) sphere index, real and imaginary part symbolic, '
                   'imaginary part of any size >= 0: the complex index ratio and the size parameter handed to the '
                   'calculator are unchanged by the index normalisation and the length scale')
def mielens_args_absorbing(S):
    mc.setup(S)
    log = []

    def _create_calculator(self, particle_kz=None, index_ratio=None, size_parameter=None):
        # the pupil integrals are not needed here: record what the glue hands over and stop
        log.append(dict(particle_kz=particle_kz, index_ratio=index_ratio, size_parameter=size_parameter))
        raise _Stop()
    S.patch(MieLens, '_create_calculator', _create_calculator, both=True)
    theory = MieLens(lens_angle=0.9)
    c = S.real('c', pos=True)
    nr, ni = S.real('n_re', pos=True), S.real('n_im', lo=0)
    nm, lam = S.real('n_medium', pos=True), S.real('wavelen', pos=True)
    n = core.SymC(nr, ni) if S.sym else complex(nr, ni)
    cfgs = [('reference', 1, (n, nm, lam)), ('rescaled', c, (n, nm, c * lam)),
            ('index_normalised', 1, (n / nm, 1, lam / nm))]
    r = S.real('r', pos=True)
    rho, phi, z = S.real('rho', lo=0, hi=20), S.angle('phi', 0, 2), S.real('z')
    out = {}
    for label, mult, (n_, nm_, lam_) in cfgs:
        k = 2 * (S.pi if S.sym else np.pi) / (lam_ / nm_)
        del log[:]
        pos = mc.positions(S, [k * mult * rho], [phi], k * mult * z)
        try:
            theory.raw_fields(pos, Sphere(n=n_, r=mult * r, center=(0, 0, 0)), k, nm_, mc.pol_vector(S, 0))
        except _Stop:
            pass
        out[label] = dict(log[0])
    S.observe('x', out['reference']['size_parameter'])
    S.claim_eq('reference.index_ratio', out['reference']['index_ratio'], n / nm)
    for label in ('rescaled', 'index_normalised'):
        for key in ('particle_kz', 'index_ratio', 'size_parameter'):
            S.claim_eq(f'{label}.{key}', out[label][key], out['reference'][key])
