"""C05 - holograms covariant under in-plane shift, axial rotation and mirroring."""
import numpy as np
import xarray as xr

from symx import core
from symx.harness import obligation
from symx.shim import shim_np

LEVEL = 'model_checking'
ASSUMPTIONS = [
    "floats are modelled as reals",
    "MieLens radial integrals I_0, I_2 are uninterpreted functions of (k rho, kz, m, x); the covariance of the "
    "compiled Mie/Multisphere/T-matrix kernels and of Lens' equispaced phi quadrature is outside the claim",
    "trigonometric identities are decided over sin/cos atoms with s^2+c^2=1 (addition formulas expanded by the "
    "proxy layer), i.e. for all angles",
]

import holopy.scattering.imageformation as imf
from holopy.core.metadata import detector_points
from holopy.scattering.imageformation import ImageFormation
from holopy.scattering.theory.scatteringtheory import ScatteringTheory
from holopy.scattering.scatterer import Sphere
from holopy.scattering.theory.mielens import MieLens

from props import mlcommon as mc

IF = 'holopy.scattering.imageformation.ImageFormation.'


class _T(ScatteringTheory):
    def __init__(self, coord='spherical'):
        self.desired_coordinate_system = coord

    def can_handle(self, s):
        return True


def _setup_if(S):
    mc.setup(S)
    if S.sym:
        shim_np(S, imf)


def _points(S, n, prefix='p'):
    xs = [S.real(f'{prefix}x{i}') for i in range(n)]
    ys = [S.real(f'{prefix}y{i}') for i in range(n)]
    return xs, ys


def _arr(S, v):
    return np.array(v, dtype=object if S.sym else float)


@obligation('C05.shift.kernel_arguments', functions=[IF + '_transform_to_desired_coordinates',
                                                     'holopy.core.math.transform_cartesian_to_spherical',
                                                     'holopy.core.math.transform_cartesian_to_cylindrical'],
            angle_mode='atoms', timeout_s=120,
            bounds='point detector with 2 symbolic points, symbolic sphere centre, symbolic in-plane shift (u,v) '
                   'applied to both: every kernel argument (k r, theta, phi) / (k rho, phi, k z) is unchanged, for '
                   'spherical and cylindrical kernels')
def shift_args(S):
    _setup_if(S)
    xs, ys = _points(S, 2)
    c = [S.real('cx'), S.real('cy'), S.real('cz')]
    u, v = S.real('u'), S.real('v')
    k = 12.5
    det = detector_points(x=_arr(S, xs), y=_arr(S, ys), z=0.0)
    det_s = detector_points(x=_arr(S, [x + u for x in xs]), y=_arr(S, [y + v for y in ys]), z=0.0)
    for coord in ('spherical', 'cylindrical'):
        imform = ImageFormation(_T(coord))
        a = imform._transform_to_desired_coordinates(det, c, wavevec=k)
        b = imform._transform_to_desired_coordinates(det_s, [c[0] + u, c[1] + v, c[2]], wavevec=k)
        S.observe(coord, a)
        S.claim_eq(coord + '.args_unchanged', b, a)


@obligation('C05.rotation.kernel_arguments', functions=[IF + '_transform_to_desired_coordinates',
                                                        'holopy.core.math.transform_cartesian_to_cylindrical'],
            angle_mode='atoms', timeout_s=180,
            bounds='one detector point and sphere centre rotated about the optical axis by a symbolic angle: '
                   'cylindrical kernel arguments become (k rho, phi + psi mod 2pi, k z); point off the axis')
def rotation_args(S):
    _setup_if(S)
    px, py = S.real('px'), S.real('py')
    cx, cy, cz = S.real('cx'), S.real('cy'), S.real('cz')
    psi = S.angle('psi', -1, 1)
    S.assume((px - cx) * (px - cx) + (py - cy) * (py - cy) > 0)
    cs, sn = np.cos(psi), np.sin(psi)

    def rot(x, y):
        return cs * x - sn * y, sn * x + cs * y
    k = 12.5
    imform = ImageFormation(_T('cylindrical'))
    det = detector_points(x=_arr(S, [px]), y=_arr(S, [py]), z=0.0)
    rpx, rpy = rot(px, py)
    rcx, rcy = rot(cx, cy)
    det_r = detector_points(x=_arr(S, [rpx]), y=_arr(S, [rpy]), z=0.0)
    a = imform._transform_to_desired_coordinates(det, [cx, cy, cz], wavevec=k)
    b = imform._transform_to_desired_coordinates(det_r, [rcx, rcy, cz], wavevec=k)
    S.observe('a', a)
    S.claim_eq('rho', b[0][0], a[0][0])
    S.claim_eq('z', b[2][0], a[2][0])
    # phi' = phi + psi (mod 2 pi): compare through sin and cos
    S.claim_eq('cos_phi', np.cos(b[1][0]), np.cos(a[1][0] + psi))
    S.claim_eq('sin_phi', np.sin(b[1][0]), np.sin(a[1][0] + psi))


def _ml_fields(S, theory, rhos, phis, kz, alpha):
    f = mc.raw_fields(S, theory, rhos, phis, kz, alpha)
    return f


def _rotation_body(S, npts, large_rho=False):
    mc.setup(S)
    mc.install_stub_calculator(S)
    theory = MieLens(lens_angle=0.9)
    lim = 3.9 * 100
    rhos = [S.real(f'krho{i}', lo=0) for i in range(npts)]
    for r in rhos:
        if large_rho:
            S.assume(r >= lim)
        else:
            S.assume(r < lim)
    phis = [S.angle(f'phi{i}', 0, 2) for i in range(npts)]
    kz = S.real('kz')
    alpha = S.angle('alpha', -1, 1)
    psi = S.angle('psi')
    S.assume(alpha > -S.pi)
    S.assume(alpha + psi > -S.pi)
    S.assume(alpha + psi <= S.pi)
    E = _ml_fields(S, theory, rhos, phis, kz, alpha)
    Er = _ml_fields(S, theory, rhos, [p + psi for p in phis], kz, alpha + psi)
    S.observe('E', E)
    cs, sn = np.cos(psi), np.sin(psi)
    for i in range(npts):
        S.claim_eq(f'Ex[{i}]', Er[0, i], cs * E[0, i] - sn * E[1, i])
        S.claim_eq(f'Ey[{i}]', Er[1, i], sn * E[0, i] + cs * E[1, i])
        S.claim_eq(f'Ez[{i}]', Er[2, i], E[2, i])
        # the hologram |a E + p|^2 is then unchanged because p rotates with the polarization:
        # |R(aE + p)|^2 = |aE + p|^2 (C01 gives hologram = |aE + p|^2); not put to the solver again


def _abs2(v):
    return v.real * v.real + v.imag * v.imag


ROT_BOUNDS = ('detector points (k rho_i, phi_i) and polarization angle alpha all rotated by a symbolic psi about '
              'the optical axis (alpha, alpha+psi in (-pi, pi]); symbolic kz (either sign), scaling')


@obligation('C05.rotation.mielens.1pt', functions=mc.ML_FUNCS, stubs=mc.ML_STUBS, timeout_s=120, angle_mode='atoms',
            bounds='1 point inside the large-rho cutoff; ' + ROT_BOUNDS)
def rotation_ml_1(S):
    _rotation_body(S, 1)


@obligation('C05.rotation.mielens.2pt', functions=mc.ML_FUNCS, stubs=mc.ML_STUBS, timeout_s=120, angle_mode='atoms',
            bounds='2 points inside the large-rho cutoff; ' + ROT_BOUNDS)
def rotation_ml_2(S):
    _rotation_body(S, 2)


@obligation('C05.rotation.mielens.beyond_cutoff', functions=mc.ML_FUNCS, stubs=mc.ML_STUBS, timeout_s=120, angle_mode='atoms',
            bounds='1 point beyond the large-rho cutoff (zero-field branch); ' + ROT_BOUNDS)
def rotation_ml_large(S):
    _rotation_body(S, 1, large_rho=True)


@obligation('C05.mirror.mielens', functions=mc.ML_FUNCS, stubs=mc.ML_STUBS, timeout_s=120, angle_mode='atoms',
            bounds='1 point mirrored in the plane containing the optical axis and the polarization '
                   '(phi -> 2 alpha - phi): the field is mirrored (E_par even, E_perp odd); for alpha = 0 and '
                   'alpha = pi/2 the hologram is symmetric about both in-plane axes')
def mirror_ml(S):
    mc.setup(S)
    mc.install_stub_calculator(S)
    theory = MieLens(lens_angle=0.9)
    rho = S.real('krho', lo=0, hi=380)
    phi = S.angle('phi', 0, 2)
    kz = S.real('kz')
    alpha = S.angle('alpha', -1, 1)
    S.assume(alpha > -S.pi)
    a = S.real('scaling')
    E = _ml_fields(S, theory, [rho], [phi], kz, alpha)
    Em = _ml_fields(S, theory, [rho], [2 * alpha - phi], kz, alpha)
    S.observe('E', E)
    c2, s2 = np.cos(2 * alpha), np.sin(2 * alpha)
    S.claim_eq('Ex', Em[0, 0], c2 * E[0, 0] + s2 * E[1, 0])
    S.claim_eq('Ey', Em[1, 0], s2 * E[0, 0] - c2 * E[1, 0])
    # x- and y-polarized light: symmetric about both axes through the centre
    for tag, al in (('xpol', 0), ('ypol', S.pi / 2)):
        def holo(ph):
            F = _ml_fields(S, theory, [rho], [ph], kz, al)
            return _abs2(a * F[0, 0] + np.cos(al)) + _abs2(a * F[1, 0] + np.sin(al))
        base = holo(phi)
        S.claim_eq(tag + '.mirror_x_axis', holo(-phi), base)
        S.claim_eq(tag + '.mirror_y_axis', holo(S.pi - phi), base)
        S.claim_eq(tag + '.point_reflection', holo(phi + S.pi), base)


@obligation('C05.rotation.cluster_orientation_api',
            functions=['holopy.scattering.scatterer.composite.Scatterers.rotated',
                       'holopy.scattering.scatterer.spherecluster.RigidCluster.scatterers',
                       'holopy.core.math.rotate_points', 'holopy.core.math.rotation_matrix'],
            angle_mode='atoms', timeout_s=120, nvalid=2,
            bounds='3-sphere cluster with symbolic centres oriented through the library API with symbolic Euler angles '
                   '(alpha, beta, gamma): increasing the last angle by psi turns every centre by psi about the optical '
                   'axis through the centroid, for Spheres.rotated and for RigidCluster')
def cluster_orientation(S):
    import holopy.core.math as hm
    import holopy.scattering.scatterer.composite as comp
    import holopy.scattering.scatterer.spherecluster as scm
    from holopy.scattering.scatterer import Spheres, RigidCluster
    if S.sym:
        for m in (hm, comp, scm):
            shim_np(S, m)
        S.patch(hm, 'pi', S.pi)
    cs = [[S.real(f'c{i}{ax}') for ax in 'xyz'] for i in range(3)]
    members = [Sphere(n=1.5, r=0.1, center=c) for c in cs]
    base = Spheres(members, warn=False)
    a, b, g, psi = S.angle('alpha'), S.angle('beta'), S.angle('gamma'), S.angle('psi')
    for v in (a, b, g, psi):
        S.assume(v != 3, 'angle != 3 (fork cut in len(ensure_array(x)==3))')
    S.assume(g + psi != 3)
    r0 = [list(s.center) for s in base.rotated(a, b, g).scatterers]
    r1 = [list(s.center) for s in base.rotated(a, b, g + psi).scatterers]
    rc = RigidCluster(base, rotation=(a, b, g + psi))
    r2 = [list(s.center) for s in rc.scatterers]
    S.observe('r0', np.array(r0, dtype=object if S.sym else float))
    com = [sum(c[ax] for c in cs) / 3 for ax in range(3)]
    cp, sp = np.cos(psi), np.sin(psi)
    for i in range(3):
        dx, dy = r0[i][0] - com[0], r0[i][1] - com[1]
        exp = [com[0] + cp * dx - sp * dy, com[1] + sp * dx + cp * dy, r0[i][2]]
        for ax in range(3):
            S.claim_eq(f'rotated[{i},{ax}]', r1[i][ax], exp[ax])
            S.claim_eq(f'rigidcluster[{i},{ax}]', r2[i][ax], exp[ax])


@obligation('C05.rotation.lens_quadrature_step', functions=['holopy.scattering.theory.lens.Lens.raw_fields',
                                                           'holopy.scattering.theory.lens.Lens._compute_integral',
                                                           'holopy.scattering.theory.lens.Lens._compute_integrand',
                                                           'holopy.scattering.theory.lens.Lens._integrand_prefactor',
                                                           'holopy.scattering.theory.lens.Lens._integrand_prll',
                                                           'holopy.scattering.theory.lens.Lens._integrand_perp',
                                                           'holopy.scattering.theory.lens.Lens._calc_scattering_matrix',
                                                           'holopy.scattering.theory.lens.Lens._transform_integral_from_lr_to_xyz',
                                                           'holopy.scattering.theory.lens.Lens._compute_field_phase'],
            stubs=['wrapped theory raw_scat_matrs := uninterpreted S(theta) (sphere: independent of phi)'],
            angle_mode='atoms', timeout_s=240, nvalid=2, cost=4,
            bounds='Lens wrapper with 2 symbolic theta nodes and 4 equispaced phi nodes (phi0 + j pi/2, symbolic phi0, '
                   'equal weights): rotating the detector point and the polarization by one quadrature step (pi/2) '
                   'rotates the field by pi/2 - the rotation covariance the equispaced phi quadrature does have; '
                   '1 symbolic detector point (k rho, phi, k z)')
def rotation_lens_step(S):
    import holopy.scattering.theory.lens as lens_mod
    from holopy.scattering.theory.lens import Lens
    mc.setup(S)
    if S.sym:
        shim_np(S, lens_mod)
    Sf = [[S.cfunc(f'S{a}{b}', 1) for b in range(2)] for a in range(2)]

    class Inner:
        def can_handle(self, s):
            return True

        def raw_scat_matrs(self, scatterer, pos, medium_wavevec, medium_index):
            out = np.empty((pos.shape[1], 2, 2), dtype=object if S.sym else complex)
            for i in range(pos.shape[1]):
                for a in range(2):
                    for b in range(2):
                        out[i, a, b] = Sf[a][b](pos[1, i])
            return out
    lens = Lens.__new__(Lens)
    lens.lens_angle = 0.8
    lens.theory = Inner()
    lens.quad_npts_theta, lens.quad_npts_phi = 2, 4
    lens.use_numexpr = False
    obj = object if S.sym else float
    th = [S.angle(f'theta{i}', 0, 0.45) for i in range(2)]
    phi0 = S.angle('phi0', 0, 0.5)
    half_pi = S.pi / 2
    lens._theta_pts = np.array(th, dtype=obj).reshape(-1, 1, 1)
    lens._theta_wts = np.array([S.real(f'wt{i}', pos=True) for i in range(2)], dtype=obj).reshape(-1, 1, 1)
    lens._costheta = np.cos(lens._theta_pts)
    lens._sintheta = np.sin(lens._theta_pts)
    for i in range(2):
        S.assume(lens._costheta[i, 0, 0] > 0, 'cos(theta node) > 0 (node inside the aperture)')
    lens._phi_pts = np.array([phi0 + j * half_pi for j in range(4)], dtype=obj).reshape(1, -1, 1)
    w = S.real('wphi', pos=True)
    lens._phi_wts = np.array([w, w, w, w], dtype=obj).reshape(1, -1, 1)
    krho, phi, kz = S.real('krho', lo=0), S.angle('phi', 0, 2), S.real('kz')
    alpha = S.angle('alpha', -1, 0.5)
    S.assume(alpha > -S.pi)

    def fields(ph, al):
        pos = mc.positions(S, [krho], [ph], kz)
        return lens.raw_fields(pos, Sphere(n=1.59, r=0.5, center=(0, 0, 0)), 7.0, 1.33, mc.pol_vector(S, al))
    E = fields(phi, alpha)
    Er = fields(phi + half_pi, alpha + half_pi)
    S.observe('E', E)
    # rotation by pi/2: (Ex, Ey) -> (-Ey, Ex)
    S.claim_eq('Ex', Er[0, 0], -E[1, 0])
    S.claim_eq('Ey', Er[1, 0], E[0, 0])
    S.claim_eq('Ez', Er[2, 0], E[2, 0])


@obligation('C05.shift.translated_api', functions=['holopy.scattering.scatterer.scatterer.Scatterer.translated',
                                                   'holopy.scattering.scatterer.composite.Scatterers.translated'],
            timeout_s=120, nvalid=2,
            bounds='a sphere and a 2-sphere collection with symbolic centres shifted through the library API in a chain '
                   '(s -> s.translated(d) -> .translated(e), tuple and array-valued centres): every object of the chain '
                   'sits at its own position afterwards (the earlier ones are not moved by the later calls)')
def translated_api(S):
    import holopy.scattering.scatterer.scatterer as scat_mod
    import holopy.scattering.scatterer.composite as comp
    from holopy.scattering.scatterer import Spheres
    if S.sym:
        for m in (scat_mod, comp):
            shim_np(S, m)
    obj = object if S.sym else float
    c = [S.real('cx'), S.real('cy'), S.real('cz')]
    d = [S.real('dx'), S.real('dy'), S.real('dz')]
    e = [S.real('ex'), S.real('ey'), S.real('ez')]
    for v in c + d + e:
        S.assume(v != 3, 'component != 3 (fork cut in len(ensure_array(x)==3))')
    S.observe('cx', c[0])
    for tag, centre in (('tuple', tuple(c)), ('array', np.array(c, dtype=obj))):
        s0 = Sphere(n=1.5, r=0.5, center=centre)
        s1 = s0.translated(d[0], d[1], d[2])
        s2 = s1.translated(np.array(e, dtype=obj))
        s3 = s1.translated(e[0], e[1], e[2])
        for ax in range(3):
            S.claim_eq(f'{tag}.start[{ax}]', s0.center[ax], c[ax])
            S.claim_eq(f'{tag}.first[{ax}]', s1.center[ax], c[ax] + d[ax])
            S.claim_eq(f'{tag}.second[{ax}]', s2.center[ax], c[ax] + d[ax] + e[ax])
            S.claim_eq(f'{tag}.second_again[{ax}]', s3.center[ax], c[ax] + d[ax] + e[ax])
        S.claim(f'{tag}.new_objects', s1 is not s0 and s2 is not s1)
    pair = Spheres([Sphere(n=1.5, r=0.5, center=tuple(c)), Sphere(n=1.5, r=0.5, center=(c[0] + 7, c[1], c[2]))],
                   warn=False)
    p1 = pair.translated(d[0], d[1], d[2])
    p2 = p1.translated(e[0], e[1], e[2])
    for i, off in enumerate((0, 7)):
        for ax in range(3):
            base = c[ax] + (off if ax == 0 else 0)
            S.claim_eq(f'pair.start[{i},{ax}]', pair.scatterers[i].center[ax], base)
            S.claim_eq(f'pair.first[{i},{ax}]', p1.scatterers[i].center[ax], base + d[ax])
            S.claim_eq(f'pair.second[{i},{ax}]', p2.scatterers[i].center[ax], base + d[ax] + e[ax])
