"""C06 - superposition, polarization linearity, multi-channel = stacked single-channel."""
import numpy as np
import xarray as xr

from symx import core
from symx.core import SymR, SymC
from symx.harness import obligation
from symx.shim import shim_np

LEVEL = 'model_checking'
ASSUMPTIONS = [
    "floats are modelled as reals",
    "the per-sphere kernel is an uninterpreted complex function of exactly the arguments handed to raw_fields "
    "(point index, wavevector, index, radius, centre, polarization); linearity of the compiled kernels in the "
    "polarization is outside the claim (decided for MieLens only)",
]

import holopy.scattering.interface as iface
import holopy.scattering.imageformation as imf
import holopy.core.metadata as meta
from holopy.core.metadata import detector_grid, detector_points
from holopy.scattering.scatterer import Sphere, Spheres, Scatterers
from holopy.scattering.theory.scatteringtheory import ScatteringTheory
from holopy.scattering.theory.mielens import MieLens
from holopy.scattering import calc_holo, calc_field

from props.C01 import setup as c01_setup, _flatvals, FUNCS as C01_FUNCS
from props import mlcommon as mc

IF = 'holopy.scattering.imageformation.'
FUNCS = C01_FUNCS + [IF + 'ImageFormation._calculate_multiple_color_scattered_field',
                     IF + 'select_scatterer_by_illumination', 'holopy.core.metadata.clean_concat',
                     'holopy.core.metadata.dict_to_array',
                     'holopy.scattering.scatterer.composite.Scatterers.get_component_list']


def uf_theory(S, log=None):
    """kernel = uninterpreted complex function of (point, k, n_first_layer, r_outer, cx, cy, cz, polx, poly)"""
    E = [S.cfunc('E' + c, 9) for c in 'xyz']

    class UFTheory(ScatteringTheory):
        desired_coordinate_system = 'spherical'

        def __init__(self):
            pass

        def can_handle(self, scatterer):
            return isinstance(scatterer, Sphere)

        def raw_fields(self, pos, scatterer, medium_wavevec, medium_index, illum_polarization):
            n = pos.shape[1]
            def first(v, last=False):
                if core.is_sym(v):
                    return v
                flat = np.asarray(v, dtype=object).reshape(-1)
                return flat[-1] if last else flat[0]
            nn = first(scatterer.n)
            rr = first(scatterer.r, last=True)
            pol = illum_polarization.values
            if log is not None:
                log.append(dict(k=medium_wavevec, n=nn, r=rr, pol=pol, medium_index=medium_index))
            out = np.empty((3, n), dtype=object if S.sym else complex)
            c = scatterer.center
            nre = nn.real if hasattr(nn, 'real') else nn
            for i in range(n):
                for comp in range(3):
                    out[comp, i] = E[comp](i, medium_wavevec, nre, rr, c[0], c[1], c[2], pol[0], pol[1])
            return out
    return UFTheory()


def _field_vals(f):
    dims = ['x', 'y', 'z', 'vector'] if 'x' in f.dims else ['point', 'vector']
    extra = [d for d in f.dims if d not in dims]
    return f.transpose(*(dims + extra)).values


def _superposition_body(S, members_fn, n_members_flat):
    c01_setup(S)
    theory = uf_theory(S)
    det = detector_grid((1, 2), 0.1)
    members, flat_members = members_fn()
    kw = dict(medium_index=1.33, illum_wavelen=0.66, illum_polarization=(1, 0), theory=theory)
    total = _field_vals(calc_field(det, members, **kw)).reshape(-1, 3)
    S.observe('total', total)
    parts = [_field_vals(calc_field(det, s, **kw)).reshape(-1, 3) for s in flat_members]
    acc = parts[0]
    for p in parts[1:]:
        acc = acc + p
    S.claim('members', len(flat_members) == n_members_flat)
    S.claim_eq('field_is_sum_of_members', total, acc)


def _sph(S, i, layered=False):
    # x, y and the radii are concrete and keep the spheres apart (so that Spheres.overlaps does not fork);
    # the depths - which set each member's own phase - are symbolic
    c = [3.0 * i, 0.5 * i, S.real(f's{i}z')]
    if layered:
        return Sphere(n=[1.4 + 0.01 * i, 1.5], r=[0.3, 0.5], center=c)
    return Sphere(n=1.4 + 0.01 * i, r=0.4 + 0.05 * i, center=c)


@obligation('C06.superposition.spheres3', functions=FUNCS, timeout_s=120, nvalid=2,
            stubs=['raw_fields := uninterpreted per-sphere kernel'],
            bounds='Spheres of 3 members (symbolic depths, one member layered), 1x2 grid: field = sum of '
                   'the members computed separately, each with its own phase')
def superposition3(S):
    def mk():
        ms = [_sph(S, 0), _sph(S, 1, layered=True), _sph(S, 2)]
        return Spheres(ms, warn=False), ms
    _superposition_body(S, mk, 3)


@obligation('C06.superposition.spheres4', functions=FUNCS, timeout_s=240, nvalid=1, tier='thorough',
            stubs=['raw_fields := uninterpreted per-sphere kernel'],
            bounds='Spheres of 4 members, 1x2 grid')
def superposition4(S):
    def mk():
        ms = [_sph(S, i) for i in range(4)]
        return Spheres(ms, warn=False), ms
    _superposition_body(S, mk, 4)


def _channels_body(S, as_dict, order, npix=(1, 2), pol_order=None):
    c01_setup(S)
    log = []
    theory = uf_theory(S, log)
    labels = ['red', 'green']
    det = detector_grid(npix, 0.1, extra_dims={'illumination': labels})
    wl = {'red': S.real('wl_red', pos=True), 'green': S.real('wl_green', pos=True)}
    nn = {'red': S.real('n_red', pos=True), 'green': S.real('n_green', pos=True)}
    rr = {'red': S.real('r_red', pos=True), 'green': S.real('r_green', pos=True)}
    ar, br = S.real('pol_a'), S.real('pol_b')
    S.assume(ar * ar + br * br > 0)
    pol = {'red': (ar, br), 'green': (0, 1)}
    alpha = S.real('scaling')
    keys = list(order)
    if as_dict:
        wl_in = {k: wl[k] for k in keys}
        pol_in = {k: pol[k] for k in (pol_order or keys)}
        n_in = {k: nn[k] for k in keys}
        r_in = {k: rr[k] for k in (pol_order or keys)}
    else:
        wl_in = xr.DataArray(np.array([wl[k] for k in keys], dtype=object if S.sym else float),
                             dims='illumination', coords={'illumination': keys})
        pol_in = {k: pol[k] for k in keys}
        n_in = xr.DataArray(np.array([nn[k] for k in keys], dtype=object if S.sym else float),
                            dims='illumination', coords={'illumination': keys})
        r_in = {k: rr[k] for k in keys}
    center = (0.3, 0.4, S.real('z'))
    sph = Sphere(n=n_in, r=r_in, center=center)
    holo = calc_holo(det, sph, medium_index=1.33, illum_wavelen=wl_in, illum_polarization=pol_in,
                     theory=theory, scaling=alpha)
    S.claim('has_illumination_dim', 'illumination' in holo.dims and list(holo.illumination.values) == labels or
            sorted(holo.illumination.values) == sorted(labels))
    single_det = detector_grid(npix, 0.1)
    for ch in labels:
        single = calc_holo(single_det, Sphere(n=nn[ch], r=rr[ch], center=center), medium_index=1.33,
                           illum_wavelen=wl[ch], illum_polarization=pol[ch], theory=theory, scaling=alpha)
        got = _flatvals(holo.sel(illumination=ch)).reshape(-1)
        ref = _flatvals(single).reshape(-1)
        S.observe('holo_' + ch, got)
        S.claim_eq(f'channel_{ch}', got, ref)


CH_BOUNDS = ('2 illumination channels with per-channel symbolic wavelength, particle index, radius and '
             'polarization; 1x2 grid; symbolic scaling and depth')


@obligation('C06.channels.dict', functions=FUNCS, timeout_s=180, nvalid=2,
            stubs=['raw_fields := uninterpreted kernel'],
            bounds=CH_BOUNDS + '; all per-channel values given as dictionaries keyed in detector order')
def channels_dict(S):
    _channels_body(S, True, ('red', 'green'))


@obligation('C06.channels.dict_permuted', functions=FUNCS, timeout_s=180, nvalid=2,
            stubs=['raw_fields := uninterpreted kernel'],
            bounds=CH_BOUNDS + '; dictionaries keyed in the opposite order to the detector channels '
                               '(alignment must be by label)')
def channels_dict_permuted(S):
    _channels_body(S, True, ('green', 'red'))


@obligation('C06.channels.mixed_orders', functions=FUNCS, timeout_s=180, nvalid=2,
            stubs=['raw_fields := uninterpreted kernel'],
            bounds=CH_BOUNDS + '; wavelength/index dictionaries keyed (green, red) while polarization/radius '
                               'dictionaries are keyed (red, green): every quantity must be aligned by label')
def channels_mixed(S):
    _channels_body(S, True, ('green', 'red'), pol_order=('red', 'green'))


@obligation('C06.channels.labelled_arrays', functions=FUNCS, timeout_s=180, nvalid=2,
            stubs=['raw_fields := uninterpreted kernel'],
            bounds=CH_BOUNDS + '; wavelength and index given as labelled arrays in permuted channel order')
def channels_arrays(S):
    _channels_body(S, False, ('green', 'red'))


@obligation('C06.polarization_linearity.mielens', functions=mc.ML_FUNCS, stubs=mc.ML_STUBS,
            angle_mode='atoms', timeout_s=180, nvalid=2,
            bounds='MieLens.raw_fields on 2 symbolic detector points (k rho_i, phi_i), symbolic kz: for every '
                   'polarization angle alpha in (-pi, pi], field(alpha) = cos(alpha) field_x + sin(alpha) field_y '
                   '(i.e. (a field_x + b field_y)/|(a,b)|; the normalisation of (a,b) itself is decided in C01/C16)')
def pol_linearity(S):
    mc.setup(S)
    mc.install_stub_calculator(S)
    theory = MieLens(lens_angle=0.9)
    rhos = [S.real(f'krho{i}', lo=0, hi=380) for i in range(2)]
    phis = [S.angle(f'phi{i}', 0, 2) for i in range(2)]
    kz = S.real('kz')
    alpha = S.angle('alpha', -1, 1)
    S.assume(alpha > -S.pi)
    fab = mc.raw_fields(S, theory, rhos, phis, kz, alpha)
    fx = mc.raw_fields(S, theory, rhos, phis, kz, 0)
    fy = mc.raw_fields(S, theory, rhos, phis, kz, S.pi / 2)
    S.observe('fab', fab)
    S.claim_eq('linear', fab, np.cos(alpha) * fx + np.sin(alpha) * fy)


@obligation('C06.superposition.mielens_shared_theory', functions=['holopy.scattering.theory.mielens.MieLens.raw_fields',
                                                                  'holopy.scattering.theory.mielens.MieLens._create_calculator'],
            stubs=['MieLensCalculator (class) := recorder with uninterpreted fields E(k rho, phi, kz, m, x)'],
            angle_mode='atoms', timeout_s=120, nvalid=2,
            bounds='one MieLens object evaluating two spheres at the same depth with the same index and different '
                   '(symbolic) radii, then the first again: each member field equals the field computed by a fresh '
                   'theory object (what the sum over the members of a collection is made of)')
def mielens_shared_theory(S):
    mc.setup(S)
    log = []
    mc.install_stub_calculator_class(S, log)
    k, nmed, kz = 12.0, 1.33, 60.0
    r1, r2 = S.real('r1', lo=0.1, hi=2), S.real('r2', lo=0.1, hi=2)
    S.assume(r1 != r2)
    rho, phi = S.real('rho', lo=0, hi=20), S.angle('phi', 0, 2)
    S.observe('r1', r1)

    def field(theory, r):
        pos = mc.positions(S, [rho], [phi], kz)
        return theory.raw_fields(pos, Sphere(n=1.59, r=r, center=(0, 0, 5.0)), k, nmed, mc.pol_vector(S, 0))
    shared = MieLens(lens_angle=0.9)
    f1 = field(shared, r1)
    f2 = field(shared, r2)
    f1_again = field(shared, r1)
    S.claim_eq('second_member', f2, field(MieLens(lens_angle=0.9), r2))
    S.claim_eq('first_member', f1, field(MieLens(lens_angle=0.9), r1))
    S.claim_eq('first_member_again', f1_again, f1)
