"""C07 - pixel value depends only on position: grids, points, crops, subsets agree.
(The discrete structure - shapes, selections - is enumerated because xarray/pandas indexers
cannot be symbolic; the solver's share is the pixel values and the position arithmetic.)"""
import itertools
import random

import numpy as np
import xarray as xr

from symx import core
from symx.harness import obligation
from symx.shim import shim_np, shim_np_both

LEVEL = 'model_checking'
ASSUMPTIONS = [
    "floats are modelled as reals",
    "the kernel is an uninterpreted function of the position arguments it receives (k r, theta, phi) only",
    "numpy.random.choice / seed are replaced by a recorder returning a prescribed selection",
    "shapes and selections are enumerated (bounded), pixel values / sphere position are symbolic",
]

import holopy.core.metadata as meta
import holopy.core.process.img_proc as ip
from holopy.core.metadata import detector_grid, detector_points, make_subset_data, data_grid
from holopy.core.process import subimage
from holopy.scattering.scatterer import Sphere
from holopy.scattering.theory.scatteringtheory import ScatteringTheory
from holopy.scattering import calc_holo

from props.C01 import setup as c01_setup, _flatvals, FUNCS as C01_FUNCS

FUNCS = C01_FUNCS + ['holopy.core.metadata.detector_grid', 'holopy.core.metadata.detector_points',
                     'holopy.core.metadata.make_subset_data', 'holopy.core.process.img_proc.subimage']


def pos_theory(S):
    E = [S.cfunc('E' + c, 3) for c in 'xyz']

    class PosTheory(ScatteringTheory):
        desired_coordinate_system = 'spherical'

        def __init__(self):
            pass

        def can_handle(self, s):
            return isinstance(s, Sphere)

        def raw_fields(self, pos, scatterer, medium_wavevec, medium_index, illum_polarization):
            n = pos.shape[1]
            out = np.empty((3, n), dtype=object if S.sym else complex)
            for i in range(n):
                for c in range(3):
                    out[c, i] = E[c](pos[0, i], pos[1, i], pos[2, i])
            return out
    return PosTheory()


class RandomRecorder:
    def __init__(self):
        self.calls = []
        self.selection = None

    def choice(self, n, k, replace=True):
        self.calls.append(('choice', n, k, replace))
        return np.array(self.selection[:k])

    def seed(self, s):
        self.calls.append(('seed', s))


def _setup(S):
    c01_setup(S)
    if S.sym:
        shim_np(S, ip)
    rec = RandomRecorder()
    shim_np_both(S, meta, {'random': rec})
    return rec


def _selections(npix, quick, rng):
    sels = []
    if npix <= 6 and not quick:
        for k in range(1, npix + 1):
            for comb in itertools.combinations(range(npix), k):
                sels.append(list(comb))
        # a few non-sorted orders as well
        for _ in range(6):
            k = rng.randint(1, npix)
            sels.append(rng.sample(range(npix), k))
    else:
        sels.append(list(range(npix)))
        sels.append([npix - 1])
        for _ in range(6):
            k = rng.randint(1, npix)
            sels.append(rng.sample(range(npix), k))
    return sels


def _body(S, shape, spacing, quick, seed=0):
    rec = _setup(S)
    theory = pos_theory(S)
    nx, ny = shape
    sx, sy = (spacing, spacing) if np.isscalar(spacing) else spacing
    c = [S.real('cx'), S.real('cy'), S.real('cz', lo=1)]
    sph = Sphere(n=1.59, r=0.5, center=c)
    kw = dict(medium_index=1.33, illum_wavelen=0.66, illum_polarization=(1, 0), theory=theory)
    grid = detector_grid(shape, spacing)
    holo = calc_holo(grid, sph, **kw)
    hv = holo.transpose('x', 'y', 'z').values.reshape(nx, ny)
    S.observe('holo', hv)
    # explicit points (in a scrambled order)
    order = list(range(nx * ny))
    random.Random(seed).shuffle(order)
    px = [(i // ny) * sx for i in order]
    py = [(i % ny) * sy for i in order]
    pts = detector_points(x=px, y=py, z=0.0)
    hp = calc_holo(pts, sph, **kw).values.reshape(-1)
    for j, i in enumerate(order):
        S.claim_eq(f'points[{i}]', hp[j], hv[i // ny, i % ny])
    # cropped grid (shifted origin)
    if nx >= 2 and ny >= 2:
        crop = grid.isel(x=slice(nx - 2, nx), y=slice(ny - 2, ny))
        hc = calc_holo(crop, sph, **kw).transpose('x', 'y', 'z').values.reshape(2, 2)
        S.claim_eq('cropped_grid', hc, hv[nx - 2:, ny - 2:])
    # image with symbolic data, random pixel subsets
    vals = np.empty((nx, ny), dtype=object if S.sym else float)
    for i in range(nx):
        for j in range(ny):
            vals[i, j] = S.real(f'p{i}{j}')
    img = data_grid(vals, spacing=spacing, medium_index=1.33, illum_wavelen=0.66, illum_polarization=(1, 0),
                    noise_sd=0.1, name='img')
    attrs_before = dict(img.attrs)
    rng = random.Random(seed + 1)
    for sel in _selections(nx * ny, quick, rng):
        rec.selection = sel
        del rec.calls[:]
        sub = make_subset_data(img, pixels=len(sel), seed=17)
        tag = 'sel' + '_'.join(map(str, sel))
        S.claim(f'{tag}.seed_honoured', rec.calls[0] == ('seed', 17))
        S.claim(f'{tag}.choice_args', rec.calls[1] == ('choice', nx * ny, len(sel), False))
        S.claim(f'{tag}.length', sub.sizes.get('flat') == len(sel))
        S.claim_eq(f'{tag}.values', sub.values, np.array([vals[i // ny, i % ny] for i in sel],
                                                         dtype=object if S.sym else float))
        S.claim(f'{tag}.coords', np.allclose(sub.x.values, [(i // ny) * sx for i in sel]) and
                np.allclose(sub.y.values, [(i % ny) * sy for i in sel]))
        S.claim(f'{tag}.attrs', sub.attrs.get('medium_index') == 1.33 and sub.attrs.get('noise_sd') == 0.1 and
                sub.name == 'img')
        od = sub.attrs.get('original_dims')
        S.claim(f'{tag}.original_dims', od is not None and np.allclose(od['x'], img.x.values) and
                np.allclose(od['y'], img.y.values))
        hs = calc_holo(sub, sph, **kw).values.reshape(-1)
        for j, i in enumerate(sel):
            S.claim_eq(f'{tag}.forward[{j}]', hs[j], hv[i // ny, i % ny])
    # seed 0 is a seed like any other
    rec.selection = [0]
    del rec.calls[:]
    make_subset_data(img, pixels=1, seed=0)
    S.claim('seed_zero_honoured', ('seed', 0) in rec.calls)
    del rec.calls[:]
    make_subset_data(img, pixels=1)
    S.claim('no_seed_no_reseeding', not any(cl[0] == 'seed' for cl in rec.calls))
    whole = make_subset_data(img, pixels=None)
    S.claim_is('no_pixels_returns_input', whole, img)
    S.claim_eq('input_values_untouched', img.values.reshape(nx, ny), vals)
    S.claim('input_attrs_untouched', dict(img.attrs).keys() == attrs_before.keys() and
            'original_dims' not in img.attrs)
    S.claim('grid_untouched', float(np.abs(np.asarray(grid.values, dtype=float)).max()) == 0.0)


def _mk(shape, spacing, tier='quick', quick=True):
    tag = f'{shape[0]}x{shape[1]}' + ('' if quick else '.all_subsets')

    @obligation(f'C07.{tag}', functions=FUNCS, tier=tier, timeout_s=120, nvalid=2, cost=3,
                stubs=['raw_fields := uninterpreted function of the kernel position arguments',
                       'np.random.choice/seed := recorder with prescribed selection'],
                bounds=f'grid {tag} (spacing {spacing}), symbolic sphere position and image values; the same locations '
                       'as explicit points in scrambled order, as a cropped grid, and as ' +
                       ('8 pixel subsets' if quick else 'every pixel subset (plus 6 unsorted orders)'))
    def ob(S):
        _body(S, shape, spacing, quick)
    return ob


_mk((1, 3), 0.1)
_mk((2, 2), (0.1, 0.25))
_mk((2, 3), 0.2)
_mk((3, 3), (0.2, 0.1), tier='thorough')
_mk((2, 3), 0.2, tier='thorough', quick=False)
_mk((2, 2), 0.1, tier='thorough', quick=False)


@obligation('C07.history.detectors', functions=FUNCS, timeout_s=120, nvalid=2, cost=3,
            stubs=['raw_fields := uninterpreted function of the position arguments'],
            bounds='one sphere (symbolic position), a sequence of calculations in one process: two 2x2 crops of a 3x3 '
                   'grid with the same shape and spacing but different origins, then the full grid, then the first crop '
                   'again; a points detector given in spherical form (r, theta, phi) used three times: every result '
                   'equals the full-grid value at the same location / the first result, and no detector is modified')
def history_detectors(S):
    _setup(S)
    theory = pos_theory(S)
    c = [S.real('cx'), S.real('cy'), S.real('cz', lo=1)]
    sph = Sphere(n=1.59, r=0.5, center=c)
    kw = dict(medium_index=1.33, illum_wavelen=0.66, illum_polarization=(1, 0), theory=theory)
    big = detector_grid((3, 3), 0.5)
    crop_a = big.isel(x=slice(0, 2), y=slice(0, 2))
    crop_b = big.isel(x=slice(1, 3), y=slice(1, 3))

    def vals(h, n):
        return h.transpose('x', 'y', 'z').values.reshape(n, n)
    ha = vals(calc_holo(crop_a, sph, **kw), 2)
    hb = vals(calc_holo(crop_b, sph, **kw), 2)
    hbig = vals(calc_holo(big, sph, **kw), 3)
    ha2 = vals(calc_holo(crop_a, sph, **kw), 2)
    S.observe('hb', hb)
    S.claim_eq('first_crop', ha, hbig[0:2, 0:2])
    S.claim_eq('second_crop_same_shape_other_origin', hb, hbig[1:3, 1:3])
    S.claim_eq('first_crop_again', ha2, hbig[0:2, 0:2])
    S.claim('crop_coords', list(crop_b.x.values) == [0.5, 1.0] and list(crop_a.x.values) == [0.0, 0.5])
    # spherical-form points, reused
    from holopy.scattering import calc_field
    r0, th0, ph0 = [S.real('r0', lo=1), S.real('r1', lo=1)], [0.3, 1.2], [0.4, 2.5]
    obj = object if S.sym else float
    pts = detector_points(r=np.array(r0, dtype=obj), theta=list(th0), phi=list(ph0))
    f1 = calc_field(pts, sph, **kw).values
    f2 = calc_field(pts, sph, **kw).values
    f3 = calc_field(pts, sph, **kw).values
    S.claim_eq('spherical_points_second_call', f2, f1)
    S.claim_eq('spherical_points_third_call', f3, f1)
    S.claim_eq('spherical_points_r_untouched', pts.r.values, np.array(r0, dtype=obj))
    S.claim('spherical_points_angles_untouched', bool(np.allclose(pts.theta.values, th0)
                                                      and np.allclose(pts.phi.values, ph0)))
    fresh = detector_points(r=np.array(r0, dtype=obj), theta=list(th0), phi=list(ph0))
    S.claim_eq('spherical_points_fresh_detector', calc_field(fresh, sph, **kw).values, f1)


from props import mlcommon as mc  # noqa
from holopy.scattering.theory.mielens import MieLens  # noqa


@obligation('C07.mielens.mixed_near_far', functions=mc.ML_FUNCS, stubs=mc.ML_STUBS, angle_mode='atoms', nvalid=2,
            max_paths=64,
            bounds='MieLens.raw_fields on detector points given alone, together with a second near point, and together '
                   'with a point beyond the large-rho cutoff: the field at a point does not depend on which other '
                   'points are in the same call')
def mielens_mixed(S):
    mc.setup(S)
    mc.install_stub_calculator(S)
    theory = MieLens(lens_angle=0.9)
    near = S.real('krho_near', lo=0, hi=380)
    near2 = S.real('krho_near2', lo=0, hi=380)
    far = S.real('krho_far', lo=400, hi=2000)
    ph = [S.angle(f'phi{i}', 0, 2) for i in range(3)]
    kz = S.real('kz')
    alone = mc.raw_fields(S, theory, [near], [ph[0]], kz, 0)
    with_near = mc.raw_fields(S, theory, [near, near2], [ph[0], ph[1]], kz, 0)
    with_far = mc.raw_fields(S, theory, [near, far], [ph[0], ph[2]], kz, 0)
    far_first = mc.raw_fields(S, theory, [far, near], [ph[2], ph[0]], kz, 0)
    only_far = mc.raw_fields(S, theory, [far], [ph[2]], kz, 0)
    S.observe('alone', alone)
    S.claim_eq('with_second_near_point', with_near[:, 0], alone[:, 0])
    S.claim_eq('with_far_point', with_far[:, 0], alone[:, 0])
    S.claim_eq('far_point_first', far_first[:, 1], alone[:, 0])
    S.claim_eq('far_value_in_mixed_call', with_far[:, 1], only_far[:, 0])
