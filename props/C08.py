"""C08 - analytic sphere-through-lens theory: aberration-free limit, interpolation dispatch,
accelerated-expression equivalence (numerical agreement MieLens = Lens(Mie) and quadrature
convergence are numerical analysis and outside the reach of the solver)."""
import numpy as np

from symx import core
from symx.core import SymR, SymC
from symx.harness import obligation
from symx.shim import shim_np

LEVEL = 'model_checking'
ASSUMPTIONS = [
    "floats are modelled as reals; Bessel functions j0, j1 are uninterpreted",
    "equality MieLens = Lens(Mie), convergence under quadrature refinement and Chebyshev interpolation error are "
    "outside the claim",
]

import holopy.scattering.theory.mielensfunctions as mlf
import holopy.scattering.theory.lens as lens_mod
from holopy.scattering.theory.mielensfunctions import MieLensCalculator, AberratedMieLensCalculator
from holopy.scattering.theory.lens import Lens

MLF = 'holopy.scattering.theory.mielensfunctions.'
LN = 'holopy.scattering.theory.lens.'


def _setup(S):
    if S.sym:
        shim_np(S, mlf)
        shim_np(S, lens_mod)


def _col(S, vals):
    return np.array(vals, dtype=object if S.sym else float).reshape(-1, 1)


def _mk(cls, S, nq, kz, aberration=None, tag=''):
    calc = cls.__new__(cls)
    calc.particle_kz = kz
    calc.index_ratio = 1.2
    calc.size_parameter = 5.0
    calc.lens_angle = 0.9
    calc.quad_npts = nq
    calc.interpolate_integrals = False
    calc.interpolator_window_size = 30.0
    calc.interpolator_degree = 32
    calc._quad_pts = _col(S, [S.real(f'x{i}', lo=0.1, hi=1.0) for i in range(nq)])
    calc._sintheta_pts = _col(S, [S.real(f'sin{i}', lo=0.01, hi=1.0) for i in range(nq)])
    calc._quad_wts = _col(S, [S.real(f'w{i}', pos=True) for i in range(nq)])
    calc._scat_perp_values = np.array([S.cplx(f'Sperp{i}') for i in range(nq)],
                                      dtype=object if S.sym else complex).reshape(-1, 1)
    calc._scat_prll_values = np.array([S.cplx(f'Sprll{i}') for i in range(nq)],
                                      dtype=object if S.sym else complex).reshape(-1, 1)
    if aberration is not None:
        calc.spherical_aberration = aberration
    return calc


def _bessel_stubs(S):
    j0 = S.func('bessel_j0', 1)
    j1 = S.func('bessel_j1', 1)

    def lift(f):
        def g(x):
            x = np.asarray(x, dtype=object if S.sym else float)
            out = np.empty(x.shape, dtype=object if S.sym else float)
            for i, v in np.ndenumerate(x):
                out[i] = f(v)
            return out
        return g
    S.patch(mlf, 'j0', lift(j0), both=True)
    S.patch(mlf, 'j1', lift(j1), both=True)


@obligation('C08.zero_aberration', functions=[MLF + 'AberratedMieLensCalculator._calculate_phase',
                                              MLF + 'AberratedMieLensCalculator._calculate_aberrated_phase',
                                              MLF + 'MieLensCalculator._calculate_phase',
                                              MLF + 'MieLensCalculator._direct_eval_mielens_i_n', MLF + 'j2'],
            stubs=['scipy.special.j0/j1 := uninterpreted', 'quadrature nodes/weights/scattering-matrix values := symbolic'],
            timeout_s=120, nvalid=2,
            bounds='3 symbolic quadrature nodes, symbolic kz, 2 symbolic k rho values: aberration 0, 0.0, [0], [0,0], '
                   '[0,0,0] give the unaberrated phase and the unaberrated radial integrals I_0, I_2')
def zero_aberration(S):
    _setup(S)
    _bessel_stubs(S)
    kz = S.real('kz')
    base = _mk(MieLensCalculator, S, 3, kz)
    ref_phase = base._calculate_phase()
    krho = np.array([S.real('krho0', lo=0.5, hi=300), S.real('krho1', lo=0.5, hi=300)],
                    dtype=object if S.sym else float)
    ref0 = base._direct_eval_mielens_i_n(krho, n=0)
    ref2 = base._direct_eval_mielens_i_n(krho, n=2)
    S.observe('I0', ref0)
    for tag, ab in (('int0', 0), ('float0', 0.0), ('list1', [0]), ('list2', [0, 0]), ('list3', [0.0, 0.0, 0.0]),
                    ('array2', np.zeros(2))):
        calc = _mk(AberratedMieLensCalculator, S, 3, kz, aberration=ab)
        S.claim_eq(tag + '.phase', calc._calculate_phase(), ref_phase)
        S.claim_eq(tag + '.I0', calc._direct_eval_mielens_i_n(krho, n=0), ref0)
        S.claim_eq(tag + '.I2', calc._direct_eval_mielens_i_n(krho, n=2), ref2)
    try:
        base._direct_eval_mielens_i_n(krho, n=1)
        ok = False
    except ValueError:
        ok = True
    S.claim('n_must_be_0_or_2', ok)


@obligation('C08.aberrated_phase_formula', functions=[MLF + 'AberratedMieLensCalculator._calculate_aberrated_phase'],
            nvalid=2,
            bounds='symbolic aberration coefficients (scalar, length 2, length 3) and 2 quadrature nodes: phase = '
                   'kz(1-x) + u^2 (c0 P0(u) + c1 P1(u) + c2 P2(u)), u = x - 1')
def aberrated_phase(S):
    _setup(S)
    kz = S.real('kz')
    c = [S.real(f'c{i}') for i in range(3)]
    for tag, ab in (('scalar', c[0]), ('len2', [c[0], c[1]]), ('len3', c)):
        calc = _mk(AberratedMieLensCalculator, S, 2, kz, aberration=ab)
        got = calc._calculate_phase()
        x = calc._quad_pts
        u = x - 1
        cs = [ab] if tag == 'scalar' else list(ab)
        leg = [1, u, (3 * u * u - 1) / 2]
        series = sum(cs[i] * leg[i] for i in range(len(cs)))
        S.claim_eq(tag, got, kz * (1 - x) + u * u * series)
    S.observe('c0', c[0])


@obligation('C08.interpolation_dispatch', functions=[MLF + 'MieLensCalculator._eval_mielens_i_n'], max_paths=200,
            stubs=['_direct_eval_mielens_i_n / _interpolate_and_eval_mielens_i_n := markers'], nvalid=2,
            bounds="modes 'check', True, False with 2 symbolic k rho values: every mode returns one of the two "
                   "evaluators' results without raising; 'check' interpolates iff degree*ptp/window < 1.1*size")
def interpolation_dispatch(S):
    _setup(S)
    kz = S.real('kz')
    krho = np.array([S.real('krho0', lo=0, hi=300), S.real('krho1', lo=0, hi=300)], dtype=object if S.sym else float)
    for mode in ('check', True, False):
        calc = _mk(MieLensCalculator, S, 2, kz)
        calc.interpolate_integrals = mode
        calls = []
        calc._direct_eval_mielens_i_n = lambda k, n=0: (calls.append('direct'), 'DIRECT')[1]
        calc._interpolate_and_eval_mielens_i_n = lambda k, n=0: (calls.append('interp'), 'INTERP')[1]
        for n in (0, 2):
            out = calc._eval_mielens_i_n(krho, n=n)
            S.claim(f'{mode}.n{n}.returns_an_evaluator_result', out in ('DIRECT', 'INTERP'))
            if mode is True:
                S.claim(f'{mode}.n{n}.interpolates', out == 'INTERP')
            elif mode is False:
                S.claim(f'{mode}.n{n}.direct', out == 'DIRECT')
            else:
                d = abs(krho[0] - krho[1])
                S.claim_iff(f'check.n{n}.rule', out == 'INTERP', 32 * d / 30.0 < 1.1 * 2)
    S.observe('k', krho[0])


@obligation('C08.lens.accelerated_expressions', functions=[LN + 'Lens._integrand_prefactor', LN + 'Lens._integrand_prll',
                                                           LN + 'Lens._integrand_perp'],
            angle_mode='atoms', timeout_s=180, nvalid=2,
            bounds='Lens with 2x2 quadrature nodes (symbolic theta/phi nodes and weights), 1 symbolic detector point, '
                   'symbolic scattering-matrix entries: the numexpr expression strings, evaluated as Python '
                   'expressions, equal the NumPy branch term for term')
def lens_accelerated(S):
    _setup(S)

    class Inner:
        def can_handle(self, s):
            return True
    lens = Lens.__new__(Lens)
    lens.lens_angle = 0.8
    lens.theory = Inner()
    lens.quad_npts_theta = 2
    lens.quad_npts_phi = 2
    lens.use_numexpr = False
    obj = object if S.sym else float
    th = [S.angle(f'theta{i}', 0, 0.45) for i in range(2)]
    ph = [S.angle(f'phiq{i}', 0, 2) for i in range(2)]
    lens._theta_pts = np.array(th, dtype=obj).reshape(-1, 1, 1)
    lens._theta_wts = np.array([S.real(f'wt{i}', pos=True) for i in range(2)], dtype=obj).reshape(-1, 1, 1)
    lens._costheta = np.cos(lens._theta_pts)
    lens._sintheta = np.sin(lens._theta_pts)
    for i in range(2):
        S.assume(lens._costheta[i, 0, 0] > 0, 'cos(theta node) > 0 (node inside the lens aperture)')
    lens._phi_pts = np.array(ph, dtype=obj).reshape(1, -1, 1)
    lens._phi_wts = np.array([S.real(f'wp{i}', pos=True) for i in range(2)], dtype=obj).reshape(1, -1, 1)
    krho_p = np.array([S.real('krho', lo=0)], dtype=obj).reshape(1, 1, 1)
    phi_p = np.array([S.angle('phi_p', 0, 2)], dtype=obj).reshape(1, 1, 1)
    kz_p = np.array([S.real('kz')], dtype=obj).reshape(1, 1, 1)
    pol_angle = S.angle('alpha', -1, 1)
    pre = lens._integrand_prefactor(krho_p, phi_p, kz_p)
    S.observe('pre', pre)
    ns = dict(exp=np.exp, cos=np.cos, sin=np.sin, sqrt=np.sqrt,
              krho_p=krho_p, kz_p=kz_p, sintheta=lens._sintheta, costheta=lens._costheta,
              phi_relative=lens._phi_pts - phi_p, phi_wts=lens._phi_wts, theta_wts=lens._theta_wts)
    p1 = eval(Lens.numexpr_integrand_prefactor1.replace('1j', '(1j)'), {'__builtins__': {}}, ns)
    p2 = eval(Lens.numexpr_integrand_prefactor2.replace('1j', '(1j)'), {'__builtins__': {}}, ns)
    p3 = eval(Lens.numexpr_integrand_prefactor3, {'__builtins__': {}}, ns)
    S.claim_eq('prefactor', pre, p1 * p2 * p3 * (0.5 / S.pi))
    Smat = [np.array([[S.cplx(f'S{k}_{i}{j}') for j in range(2)] for i in range(2)], dtype=object if S.sym else complex)
            .reshape(2, 2, 1) for k in range(1, 5)]
    il = lens._integrand_prll(pre, pol_angle, *Smat)
    ir = lens._integrand_perp(pre, pol_angle, *Smat)
    ns2 = dict(prefactor=pre, cosphi=np.cos(lens._phi_pts - pol_angle), sinphi=np.sin(lens._phi_pts - pol_angle),
               S1=Smat[0], S2=Smat[1], S3=Smat[2], S4=Smat[3])
    S.claim_eq('integrand_l', il, eval(Lens.numexpr_integrandl, {'__builtins__': {}}, ns2))
    S.claim_eq('integrand_r', ir, eval(Lens.numexpr_integrandr, {'__builtins__': {}}, ns2))


from props import mlcommon as mc  # noqa
from holopy.scattering.theory.mielens import MieLens, AberratedMieLens  # noqa
from props.C05 import _rotation_body  # noqa


@obligation('C08.polarization_direction.mielens', functions=mc.ML_FUNCS, stubs=mc.ML_STUBS, angle_mode='atoms',
            timeout_s=120, nvalid=2,
            bounds='necessary condition for "same field as the numerical wrapper for every polarization direction": '
                   'the analytic theory is covariant under a joint rotation of detector point and polarization by any '
                   'angle (1 symbolic point, all polarization angles)')
def pol_direction_mielens(S):
    _rotation_body(S, 1)


@obligation('C08.large_rho_cutoff', functions=[MLF + 'MieLensCalculator.calculate_scattered_field'],
            stubs=['_eval_mielens_i_n := uninterpreted'], max_paths=16, nvalid=3,
            bounds='calculators with quad_npts 60, 100 and 160 and one symbolic k rho in [0, 1000]: the field is the '
                   'small-rho expression iff k rho < 3.9*quad_npts (the cutoff follows the quadrature order), zero beyond')
def large_rho_cutoff(S):
    _setup(S)
    krho = S.real('krho', lo=0, hi=1000)
    phi = S.angle('phi', 0, 2)
    I0, I2 = S.cfunc('I0', 1), S.cfunc('I2', 1)
    for npts in (60, 100, 160):
        calc = MieLensCalculator.__new__(MieLensCalculator)
        calc.quad_npts = npts
        calc._eval_mielens_i_n = lambda k, n=0: np.array([(I0 if n == 0 else I2)(v) for v in np.asarray(k).reshape(-1)],
                                                         dtype=object if S.sym else complex)
        ex, ey = calc.calculate_scattered_field(np.array([krho], dtype=object if S.sym else float),
                                                np.array([phi], dtype=object if S.sym else float))
        inside = krho < 3.9 * npts
        ref_x = 0.5 * (I0(krho) + I2(krho) * np.cos(2 * phi))
        ref_y = 0.5 * I2(krho) * np.sin(2 * phi)
        if bool(inside):
            S.claim_eq(f'npts{npts}.small_rho_x', ex[0], ref_x)
            S.claim_eq(f'npts{npts}.small_rho_y', ey[0], ref_y)
        else:
            S.claim_eq(f'npts{npts}.beyond_cutoff_x', ex[0], 0)
            S.claim_eq(f'npts{npts}.beyond_cutoff_y', ey[0], 0)
    S.observe('krho', krho)


@obligation('C08.lens.scattering_matrix_layout', functions=[LN + 'Lens._calc_scattering_matrix'], nvalid=2,
            stubs=['inner theory raw_scat_matrs := uninterpreted S(theta, phi)'],
            bounds='Lens with 2 theta nodes and 3 phi nodes (unequal quadrature orders) and with 2x2: the matrices '
                   'S1..S4 used in the integrand at node (theta_i, phi_j) are the conjugated inner-theory matrices '
                   'evaluated at (theta_i, phi_j)')
def lens_matrix_layout(S):
    _setup(S)
    Sfun = [[S.cfunc(f'S{a}{b}', 2) for b in range(2)] for a in range(2)]

    class Inner:
        def can_handle(self, s):
            return True

        def raw_scat_matrs(self, scatterer, pos, medium_wavevec, medium_index):
            out = np.empty((pos.shape[1], 2, 2), dtype=object if S.sym else complex)
            for i in range(pos.shape[1]):
                for a in range(2):
                    for b in range(2):
                        out[i, a, b] = Sfun[a][b](pos[1, i], pos[2, i])
            return out
    for nt, nph in ((2, 3), (2, 2), (3, 2)):
        lens = Lens.__new__(Lens)
        lens.theory = Inner()
        lens.quad_npts_theta, lens.quad_npts_phi = nt, nph
        th = [S.real(f'th{nt}{nph}_{i}', lo=0, hi=1) for i in range(nt)]
        ph = [S.real(f'ph{nt}{nph}_{j}', lo=0, hi=6) for j in range(nph)]
        obj = object if S.sym else float
        lens._theta_pts = np.array(th, dtype=obj).reshape(-1, 1, 1)
        lens._phi_pts = np.array(ph, dtype=obj).reshape(1, -1, 1)
        S1, S2, S3, S4 = lens._calc_scattering_matrix(None, 10.0, 1.33)
        S.claim(f'{nt}x{nph}.shape', S1.shape == (nt, nph, 1))
        if S1.shape != (nt, nph, 1):
            continue
        for i in range(nt):
            for j in range(nph):
                ref = [[np.conj(Sfun[a][b](th[i], ph[j])) for b in range(2)] for a in range(2)]
                S.claim_eq(f'{nt}x{nph}.S1[{i},{j}]', S1[i, j, 0], ref[1][1])
                S.claim_eq(f'{nt}x{nph}.S2[{i},{j}]', S2[i, j, 0], ref[0][0])
                S.claim_eq(f'{nt}x{nph}.S3[{i},{j}]', S3[i, j, 0], ref[0][1])
                S.claim_eq(f'{nt}x{nph}.S4[{i},{j}]', S4[i, j, 0], ref[1][0])
    S.observe('th', th[0])


@obligation('C08.theory_builds_calculator', functions=['holopy.scattering.theory.mielens.MieLens._create_calculator',
                                                       'holopy.scattering.theory.mielens.AberratedMieLens._create_calculator'],
            stubs=['MieLensCalculator / AberratedMieLensCalculator (classes) := constructor-argument recorders'],
            timeout_s=60, nvalid=2,
            bounds='MieLens and AberratedMieLens built with the same non-default accuracy settings (quad_npts=30, '
                   'interpolate_integrals=False) and symbolic lens angle, depth, index ratio, size parameter and '
                   'aberration: both hand the calculator the same arguments and the same accuracy settings, the '
                   'aberrated one additionally its aberration')
def theory_builds_calculator(S):
    mc.setup(S)
    log = []
    mc.install_stub_calculator_class(S, log)
    acc = {'quad_npts': 30, 'interpolate_integrals': False}
    la = S.real('lens_angle', lo=0.1, hi=1.5)
    kz, m, x, ab = S.real('kz'), S.real('m', pos=True), S.real('x', pos=True), S.real('aberration')
    S.observe('x', x)
    plain = MieLens(lens_angle=la, calculator_accuracy_kwargs=dict(acc))
    aber = AberratedMieLens(spherical_aberration=ab, lens_angle=la, calculator_accuracy_kwargs=dict(acc))
    c1 = plain._create_calculator(particle_kz=kz, index_ratio=m, size_parameter=x)
    c2 = aber._create_calculator(particle_kz=kz, index_ratio=m, size_parameter=x)
    for tag, c in (('mielens', c1), ('aberrated', c2)):
        S.claim_eq(f'{tag}.particle_kz', c.particle_kz, kz)
        S.claim_eq(f'{tag}.index_ratio', c.index_ratio, m)
        S.claim_eq(f'{tag}.size_parameter', c.size_parameter, x)
        S.claim_eq(f'{tag}.lens_angle', c.lens_angle, la)
        S.claim(f'{tag}.accuracy_settings_forwarded', {k: c.kwargs.get(k) for k in acc} == acc)
    S.claim('mielens.no_aberration_argument', 'spherical_aberration' not in c1.kwargs)
    S.claim_eq('aberrated.aberration_forwarded', c2.kwargs.get('spherical_aberration', 0.0), ab)
    S.claim('accuracy_dict_untouched', plain.calculator_accuracy_kwargs == acc and aber.calculator_accuracy_kwargs == acc)
