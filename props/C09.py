"""C09 - sphere clusters: the documented default-theory rule (order independence / rotation covariance
of the SCSMFO solver are properties of compiled Fortran and outside the reach of the solver)."""
import warnings

import numpy as np

from symx import core
from symx.harness import obligation
from symx.shim import shim_np

LEVEL = 'model_checking'
ASSUMPTIONS = [
    "floats are modelled as reals",
    "theory classes are replaced by markers (the compiled theories cannot be instantiated here); the rule itself "
    "is the real determine_default_theory_for / _choose_mie_vs_multisphere / interpret_theory code",
    "order independence, rotation covariance and the one-sphere limit of the multi-sphere solution are Fortran "
    "numerics: outside the claim",
]

import holopy.scattering.interface as iface
import holopy.scattering.scatterer.spherecluster as sc_mod
import holopy.core.math as hm
from holopy.core.holopy_object import SerializableMetaclass, HoloPyObject
from holopy.scattering.scatterer import Sphere, Spheres, Spheroid, Cylinder, Ellipsoid, Scatterers
from holopy.scattering.errors import AutoTheoryFailed, InvalidScatterer

IFN = 'holopy.scattering.interface.'
FUNCS = [IFN + 'determine_default_theory_for', IFN + '_choose_mie_vs_multisphere', IFN + 'interpret_theory']


class MarkMie(HoloPyObject):
    def __init__(self):
        pass


class MarkMultisphere(HoloPyObject):
    def __init__(self):
        pass


class MarkTmatrix(HoloPyObject):
    def __init__(self):
        pass


class MarkDDA(HoloPyObject):
    def __init__(self):
        pass

    @classmethod
    def can_handle(cls, scatterer):
        from holopy.scattering.scatterer import Scatterer
        return isinstance(scatterer, Scatterer)


def _setup(S):
    if S.sym:
        shim_np(S, iface)
        shim_np(S, sc_mod)
        shim_np(S, hm)
    S.patch(iface, 'Mie', MarkMie, both=True)
    S.patch(iface, 'Multisphere', MarkMultisphere, both=True)
    S.patch(iface, 'Tmatrix', MarkTmatrix, both=True)
    S.patch(iface, 'DDA', MarkDDA, both=True)


def _d2(p, q):
    return sum((p[i] - q[i]) ** 2 for i in range(3))


def _cluster_body(S, n, planar=False):
    _setup(S)
    if planar:
        # three spheres in the x-y plane: origin, (a, 0, 0), (0, b, 0); concrete radii
        a, b = S.real('a'), S.real('b')
        z0 = core.SymR(0) if S.sym else 0.0
        cs = [[z0, z0, z0], [a, z0, z0], [z0, b, z0]]
        rs = [0.5, 0.4, 0.3]
    else:
        cs = [[S.real(f'c{i}{ax}') for ax in 'xyz'] for i in range(n)]
        rs = [S.real(f'r{i}', pos=True) for i in range(n)]
    with warnings.catch_warnings():
        warnings.simplefilter('ignore')
        sp = Spheres([Sphere(n=1.59, r=rs[i], center=cs[i]) for i in range(n)], warn=False)
        auto = iface.interpret_theory(sp, 'auto')
        direct = iface.determine_default_theory_for(sp)
    S.claim('auto_equals_rule', type(auto) is type(direct))
    is_multi = isinstance(auto, MarkMultisphere)
    S.claim('mie_or_multisphere', isinstance(auto, (MarkMie, MarkMultisphere)))
    S.observe('is_multi', is_multi)
    # documented rule: Multisphere iff max separation <= 30 * largest radius
    conds = []
    for rmax in rs:
        is_max = True
        for r2 in rs:
            is_max = (is_max & (rmax >= r2)) if S.sym else (is_max and rmax >= r2)
        within = True
        for i in range(n):
            for j in range(i + 1, n):
                w = _d2(cs[i], cs[j]) <= (30 * rmax) ** 2
                within = (within & w) if S.sym else (within and w)
        conds.append((is_max & within) if S.sym else (is_max and within))
    rule = conds[0]
    for cnd in conds[1:]:
        rule = (rule | cnd) if S.sym else (rule or cnd)
    S.claim_iff('multisphere_iff_within_30_radii', is_multi, rule)
    explicit = iface.interpret_theory(sp, MarkMultisphere if is_multi else MarkMie)
    S.claim('explicit_class_gives_same_theory', type(explicit) is type(auto))
    inst = MarkMie()
    S.claim_is('explicit_instance_passed_through', iface.interpret_theory(sp, inst), inst)


@obligation('C09.rule.two_spheres', functions=FUNCS, max_paths=200, timeout_s=120, nvalid=3,
            stubs=['Mie/Multisphere/Tmatrix/DDA := marker classes'],
            bounds='2 uniform spheres with symbolic centres and radii, on both sides of the 30-radius boundary')
def two_spheres(S):
    _cluster_body(S, 2)


@obligation('C09.rule.three_spheres_planar', functions=FUNCS, max_paths=600, timeout_s=120, nvalid=3, cost=5,
            stubs=['Mie/Multisphere/Tmatrix/DDA := marker classes'],
            bounds='3 uniform spheres at (0,0,0), (a,0,0), (0,b,0) with symbolic a, b and concrete radii')
def three_spheres_planar(S):
    _cluster_body(S, 3, planar=True)


@obligation('C09.rule.three_spheres', functions=FUNCS, max_paths=2000, timeout_s=120, nvalid=3, cost=30, wall_s=900,
            tier='thorough', stubs=['Mie/Multisphere/Tmatrix/DDA := marker classes'],
            bounds='3 uniform spheres with symbolic centres and radii')
def three_spheres(S):
    _cluster_body(S, 3)


@obligation('C09.rule.four_spheres', functions=FUNCS, max_paths=6000, timeout_s=120, nvalid=2, cost=30, wall_s=900,
            tier='thorough', stubs=['Mie/Multisphere/Tmatrix/DDA := marker classes'],
            bounds='4 uniform spheres with symbolic centres and radii')
def four_spheres(S):
    _cluster_body(S, 4)


@obligation('C09.rule.kinds', functions=FUNCS, max_paths=64, nvalid=2,
            stubs=['Mie/Multisphere/Tmatrix/DDA := marker classes'],
            bounds='single sphere, one-sphere cluster, cluster with a layered member (warning), cluster with a missing '
                   'centre or radius, spheroid, cylinder, other scatterer, non-scatterer; symbolic sizes')
def kinds(S):
    _setup(S)
    r = S.real('r', pos=True)
    z = S.real('z')
    S.observe('r', r)
    S.claim('sphere_is_mie', isinstance(iface.interpret_theory(Sphere(n=1.59, r=r, center=(0, 0, z))), MarkMie))
    one = Spheres([Sphere(n=1.59, r=r, center=(0, 0, z))], warn=False)
    S.claim('one_sphere_cluster_is_mie', isinstance(iface.interpret_theory(one), MarkMie))
    lay = Spheres([Sphere(n=[1.5, 1.4], r=[r, r + 1], center=(0, 0, z)),
                   Sphere(n=1.5, r=r, center=(40, 0, z))], warn=False)
    with warnings.catch_warnings(record=True) as w:
        warnings.simplefilter('always')
        th = iface.interpret_theory(lay)
    S.claim('layered_member_is_mie', isinstance(th, MarkMie))
    S.claim('layered_member_warns', len(w) >= 1)
    for tag, bad in (('no_centre', Spheres([Sphere(n=1.5, r=r, center=(0, 0, z)), Sphere(n=1.5, r=r)], warn=False)),
                     ('no_radius', Spheres([Sphere(n=1.5, r=r, center=(0, 0, z)),
                                            Sphere(n=1.5, r=None, center=(9, 0, 0))], warn=False))):
        try:
            iface.interpret_theory(bad)
            ok = False
        except InvalidScatterer:
            ok = True
        S.claim(tag + '_rejected', ok)
    S.claim('spheroid_is_tmatrix', isinstance(iface.interpret_theory(Spheroid(n=1.5, r=(r, 2 * r), center=(0, 0, z))),
                                              MarkTmatrix))
    S.claim('cylinder_is_tmatrix', isinstance(iface.interpret_theory(Cylinder(n=1.5, d=r, h=2 * r, center=(0, 0, z))),
                                              MarkTmatrix))
    S.claim('ellipsoid_is_dda', isinstance(iface.interpret_theory(Ellipsoid(n=1.5, r=(r, r, 2 * r), center=(0, 0, z))),
                                           MarkDDA))
    for bad in (3.0, 'sphere', None, [1, 2]):
        try:
            iface.interpret_theory(bad)
            ok = False
        except AutoTheoryFailed:
            ok = True
        S.claim(f'non_scatterer_{type(bad).__name__}_clear_error', ok)


from props import mlcommon as mc  # noqa
from props.C05 import _rotation_body  # noqa


@obligation('C09.rotation.superposition_member', functions=mc.ML_FUNCS, stubs=mc.ML_STUBS, angle_mode='atoms',
            timeout_s=120, nvalid=2,
            bounds='cluster members treated independently (Mie-superposition family, decided for the pure-Python '
                   'MieLens member kernel): rotating detector point, member position and polarization by any angle '
                   'about the optical axis rotates the member field; together with C06 superposition this gives '
                   'covariance of the cluster field')
def rotation_member(S):
    _rotation_body(S, 2)
