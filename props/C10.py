"""C10 - T-matrix scatterers never abort the interpreter (closed-form Fortran STOP guards).
The sphere limit, spin / axis-reversal symmetry and the iteration-dependent STOPs (convergence
failures inside the Fortran solver) are outside the reach of the solver."""
import os
import re
import subprocess
import sys
import tempfile

import numpy as np

from symx import core
from symx.harness import obligation
from symx.shim import shim_np

LEVEL = 'model_checking'
ASSUMPTIONS = [
    "floats are modelled as reals",
    "the STOP guards are parsed from ampld.lp.f / ampld.par.f on every run: the angular-range block of AMPL and the "
    "size guard INM1 >= NPN1 of the T-matrix driver; iteration-dependent STOPs (NGAUSS > NPNG1, NMA = NPN1, "
    "NMAX > NPN1: convergence not obtained) cannot be decided symbolically and are outside the claim",
    "x ** 0.333333 is an uninterpreted power function (the same term in the Python guard and in the Fortran guard)",
    "detector angles come from the Cartesian -> spherical conversion, whose ranges theta in [0, pi], phi in [0, 2 pi) "
    "are decided in C19",
]

import holopy.scattering.theory.tmatrix as tm_mod
from holopy.scattering.scatterer import Sphere, Spheroid, Cylinder
from holopy.scattering.errors import InvalidScatterer

SRC = '/repo/holopy/scattering/theory/tmatrix_f'
ARG_NAMES = ['axi', 'rat', 'lam', 'mrr', 'mri', 'eps', 'np', 'ndgs', 'alpha', 'beta', 'thet0', 'thet', 'phi0', 'phi',
             'nang']
# Fortran dummy names of subroutine AMPL(NMAX, DLAM, TL, TL1, PL, PL1, ALPHA, BETA, ...) as called from S.f:
# ampl(maxi, lam, thet0, thet(j), phi0, phi(j), alpha, beta, ...)
FORTRAN_TO_ARG = {'ALPHA': 'alpha', 'BETA': 'beta', 'TL': 'thet0', 'TL1': 'thet', 'PL': 'phi0', 'PL1': 'phi'}


def parse_guards():
    """angular guard: list of (fortran var, 'LT'|'GT', number); size guard: NPN1"""
    lines = open(os.path.join(SRC, 'ampld.lp.f')).read().split('\n')
    start = next((i for i, l in enumerate(lines) if l.strip().startswith('IF (ALPHA.LT.')), None)
    if start is None:
        raise core.SymxError("angular STOP guard not found in ampld.lp.f")
    block = lines[start].strip()[len('IF ('):]
    j = start
    while 'THEN' not in lines[j]:
        j += 1
        block += lines[j].strip().lstrip('&').strip()
    block = block[:block.index(') THEN')]
    nxt = [l.strip() for l in lines[j + 1:j + 4] if not l.startswith('C')]
    if not nxt or nxt[0] != 'STOP':
        raise core.SymxError("angular guard is not followed by STOP")
    conds = []
    for part in block.split('.OR.'):
        mm = re.match(r"^([A-Z0-9]+)\.(LT|GT)\.([0-9.]+)D0$", part.strip())
        if not mm:
            raise core.SymxError(f"cannot parse guard clause {part!r}")
        conds.append((mm.group(1), mm.group(2), float(mm.group(3))))
    par = open(os.path.join(SRC, 'ampld.par.f')).read()
    npn1 = int(re.search(r"NPN1=(\d+)", par).group(1))
    code = [l.strip() for l in lines if l.strip() and not l.startswith('C')]
    try:
        i = code.index('XEV=2D0*P*A/LAM')
    except ValueError:
        raise core.SymxError("size STOP guard not found in ampld.lp.f")
    if code[i + 1:i + 4] != ['IXXX=XEV+4.05D0*XEV**0.333333D0', 'INM1=MAX0(4,IXXX)', 'IF (INM1.GE.NPN1) STOP']:
        raise core.SymxError(f"size STOP guard has changed: {code[i + 1:i + 4]}")
    return conds, npn1


def _setup(S):
    if S.sym:
        shim_np(S, tm_mod)


def _theory():
    return tm_mod.Tmatrix.__new__(tm_mod.Tmatrix)


_BUILD = {}


def real_call_aborts(args):
    """replay against the extension compiled from /repo's current Fortran: True if the child interpreter
    ends without reaching the line after the call, None if the extension cannot be built"""
    d = _BUILD.get('dir')
    if d is None:
        d = tempfile.mkdtemp(prefix='symx_tmx_')
        r = subprocess.run(['/verif/tools/build_tmatrix.sh', d], capture_output=True, text=True)
        _BUILD['dir'] = d if r.returncode == 0 else False
        d = _BUILD['dir']
    if not d:
        return None
    a = [float(x) if not isinstance(x, np.ndarray) else [float(v) for v in x] for x in args]
    code = ("import sys; sys.path.insert(0, %r); import S, numpy as np; a=%r; "
            "S.ampld(a[0],a[1],a[2],a[3],a[4],a[5],int(a[6]),int(a[7]),a[8],a[9],a[10],np.array(a[11]),a[12],"
            "np.array(a[13])); print('AFTER_CALL')" % (d, a))
    r = subprocess.run(['/venv/bin/python', '-c', code], capture_output=True, text=True, timeout=120)
    return 'AFTER_CALL' not in r.stdout


def _cleanup_build():
    d = _BUILD.get('dir')
    if d:
        import shutil
        shutil.rmtree(d, ignore_errors=True)


import atexit
atexit.register(_cleanup_build)


def _scatterer(S, kind, rot, a, b, n=1.5):
    if kind == 'spheroid':
        return Spheroid(n=n, r=(a, b), center=(0, 0, 0), rotation=rot)
    if kind == 'cylinder':
        return Cylinder(n=n, d=a, h=b, center=(0, 0, 0), rotation=rot)
    return Sphere(n=n, r=a, center=(0, 0, 0))


def _angle_body(S, kind):
    _setup(S)
    conds, npn1 = parse_guards()
    rot = (S.real('rot0'), S.real('rot1'), S.real('rot2'))
    a, b = S.real('a', lo=0.05, hi=2), S.real('b', lo=0.05, hi=2)
    kr = S.real('kr', pos=True)
    theta = S.angle('theta', 0, 1)
    phi = S.angle('phi', 0, 2)
    S.assume(phi < 2 * S.pi)
    pos = np.array([[kr], [theta], [phi]], dtype=object if S.sym else float)
    sc = _scatterer(S, kind, rot, a, b)
    sc.n = core.SymC(1.5, 0) if S.sym else 1.5 + 0j
    k = 9.5
    try:
        args = _theory()._parse_args(sc, pos, k, 1.33)
    except InvalidScatterer:
        S.claim('rejected_in_python', True)
        return
    vals = dict(zip(ARG_NAMES, args))
    S.observe('alpha', vals['alpha'])
    S.observe('beta', vals['beta'])
    fired_any = False
    for var, op, num in conds:
        v = vals[FORTRAN_TO_ARG[var]]
        v = v[0] if isinstance(v, np.ndarray) else v
        safe = (v >= num) if op == 'LT' else (v <= num)
        if S.sym:
            S.claim(f'{var}_not_{op}_{num:g}', safe)
        else:
            ok = bool(safe)
            if not ok and not fired_any:
                fired_any = True
                aborted = real_call_aborts(args)
                S.note if False else None
                # the guard fires on these concrete arguments; confirm on the compiled code when it can be built
                S.claim(f'{var}_not_{op}_{num:g}', False if aborted in (True, None) else True)
            else:
                S.claim(f'{var}_not_{op}_{num:g}', ok)


FN = ['holopy.scattering.theory.tmatrix.Tmatrix._parse_args',
      'holopy/scattering/theory/tmatrix_f/ampld.lp.f: angular-range STOP block (parsed)',
      'holopy/scattering/theory/tmatrix_f/ampld.lp.f: IF (INM1.GE.NPN1) STOP (parsed)']


@obligation('C10.no_abort.angles.spheroid', functions=FN, max_paths=64, nvalid=3, timeout_s=60,
            stubs=['Fortran guards := conditions parsed from the source'],
            bounds='spheroid with ANY real Euler angles (three symbolic reals, negative and beyond 2 pi included), '
                   'symbolic semi-axes, one detector direction (theta in [0,pi], phi in [0,2pi)): no angular STOP '
                   'guard of the Fortran code can fire')
def angles_spheroid(S):
    _angle_body(S, 'spheroid')


@obligation('C10.no_abort.angles.cylinder', functions=FN, max_paths=64, nvalid=3, timeout_s=60,
            stubs=['Fortran guards := conditions parsed from the source'],
            bounds='cylinder with ANY real Euler angles, symbolic diameter/height, one detector direction')
def angles_cylinder(S):
    _angle_body(S, 'cylinder')


@obligation('C10.no_abort.angles.sphere', functions=FN, max_paths=16, nvalid=3, timeout_s=60,
            stubs=['Fortran guards := conditions parsed from the source'],
            bounds='sphere handled by the T-matrix theory (rotation forced to zero), one detector direction')
def angles_sphere(S):
    _angle_body(S, 'sphere')


def _size_body(S, kind):
    _setup(S)
    conds, npn1 = parse_guards()
    a, b = S.real('a', pos=True), S.real('b', pos=True)
    k = S.real('k', pos=True)
    pos = np.array([[10.0], [0.3], [0.4]])
    sc = _scatterer(S, kind, (0.0, 0.2, 0.1), a, b)
    sc.n = core.SymC(1.5, 0) if S.sym else 1.5 + 0j
    try:
        args = _theory()._parse_args(sc, pos, k, 1.33)
    except InvalidScatterer:
        S.claim('rejected_in_python', True)
        return
    vals = dict(zip(ARG_NAMES, args))
    A = vals['rat'] * vals['axi']
    P = S.pi if S.sym else np.pi
    xev = 2 * P * A / vals['lam']
    S.observe('xev', xev)
    # IXXX = INT(XEV + 4.05 XEV**0.333333); INM1 = MAX(4, IXXX); STOP if INM1 >= NPN1
    # for XEV > 0:  INM1 >= NPN1  <=>  XEV + 4.05 XEV**0.333333 >= NPN1   (NPN1 > 4)
    y = xev + 4.05 * xev ** 0.333333
    if S.sym:
        S.claim('size_guard_cannot_fire', y < npn1)
    else:
        fires = bool(y >= npn1)
        if fires:
            aborted = real_call_aborts(args)
            S.claim('size_guard_cannot_fire', False if aborted in (True, None) else True)
        else:
            S.claim('size_guard_cannot_fire', True)


@obligation('C10.no_abort.size.spheroid', functions=FN, max_paths=16, nvalid=3, timeout_s=60,
            stubs=['Fortran guards := conditions parsed from the source', 'x**0.333333 := uninterpreted'],
            bounds='spheroid of ANY positive semi-axes and any positive wavevector: the size STOP guard (INM1 >= NPN1) '
                   'cannot fire - too large particles are rejected with a Python exception first')
def size_spheroid(S):
    _size_body(S, 'spheroid')


@obligation('C10.no_abort.size.cylinder', functions=FN, max_paths=16, nvalid=3, timeout_s=60,
            stubs=['Fortran guards := conditions parsed from the source', 'x**0.333333 := uninterpreted'],
            bounds='cylinder of ANY positive diameter/height and any positive wavevector')
def size_cylinder(S):
    _size_body(S, 'cylinder')
