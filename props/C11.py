"""C11 - model parameters map to exactly the places their priors were used."""
import itertools
import random

import numpy as np
import xarray as xr
import z3

from symx import core
from symx.core import SymR, SymC
from symx.harness import obligation, Obligation
from symx.shim import shim_np

LEVEL = 'model_checking'
ASSUMPTIONS = [
    "floats are modelled as reals",
    "scatterer / sharing / naming structures are enumerated (bounded families, seeded sample in the quick tier); "
    "parameter VALUES are a symbolic vector, transformations act on symbolic terms",
    "the theory is a pure-Python stub with one fittable parameter (the compiled theories cannot be built here)",
]

import holopy.core.mapping as mapping_mod
import holopy.core.prior as prior_mod
import holopy.core.utils as utils
import holopy.inference.model as model_mod
import holopy.scattering.scatterer.spherecluster as sc_mod
import holopy.scattering.scatterer.composite as comp_mod
import holopy.core.math as hm
from holopy.core.prior import Uniform, Gaussian, ComplexPrior, TransformedPrior
from holopy.core.mapping import Mapper, read_map, edit_map_indices
from holopy.inference.model import AlphaModel, ExactModel
from holopy.scattering.scatterer import Sphere, Spheres, Scatterers, RigidCluster, LayeredSphere
from holopy.scattering.theory.scatteringtheory import ScatteringTheory

import props.C14 as c14

MP = 'holopy.core.mapping.'
MM = 'holopy.inference.model.'
FUNCS = [MP + 'Mapper.convert_to_map', MP + 'Mapper.iterate_mapping', MP + 'Mapper.map_dictionary',
         MP + 'Mapper.map_xarray', MP + 'Mapper.map_transformed_prior', MP + 'Mapper.get_parameter_index',
         MP + 'Mapper.check_for_ties', MP + 'Mapper.add_parameter', MP + 'read_map', MP + 'edit_map_indices',
         MM + 'Model.__init__', MM + 'Model.add_tie', MM + 'Model.parameters', MM + 'Model.initial_guess',
         MM + 'Model.scatterer_from_parameters', MM + 'Model.theory_from_parameters',
         MM + 'Model._create_dummy_scatterer', 'holopy.scattering.scatterer.scatterer.Scatterer.from_parameters',
         'holopy.scattering.scatterer.composite.Scatterers.from_parameters',
         'holopy.scattering.scatterer.composite.Scatterers._parameters']


class StubLens(ScatteringTheory):
    parameter_names = ('lens_angle',)

    def __init__(self, lens_angle=1.0):
        self.lens_angle = lens_angle

    def can_handle(self, s):
        return True


def _setup(S):
    if S.sym:
        import holopy.scattering.scatterer.sphere as sphere_mod
        for m in (mapping_mod, prior_mod, utils, model_mod, sc_mod, comp_mod, hm, sphere_mod):
            shim_np(S, m)
        S.patch(prior_mod, 'complex', c14._symcomplex)


# ---------------------------------------------------------------------------
# structure DSL:  ('F', value) fixed | ('P', k) prior k | ('T', opname, [specs]) | ('C', spec, spec)
# ---------------------------------------------------------------------------

OPS = {
    'add': (lambda a, b: a + b),
    'mul': (lambda a, b: a * b),
    'div': (lambda a, b: a / b),
    'sqrt': (lambda a: np.sqrt(a)),
    'neg': (lambda a: -a),
}


class Pool:
    def __init__(self, names):
        # distinct prior objects with distinct positive guesses; names follow the collision pattern
        self.priors = [Uniform(0.1, 9.0, guess=1.0 + 0.5 * k, name=names[k % len(names)]) for k in range(8)]
        self.used = []

    def get(self, k):
        if k not in self.used:
            self.used.append(k)
        return self.priors[k]


def build(spec, pool):
    kind = spec[0]
    if kind == 'F':
        return spec[1]
    if kind == 'P':
        return pool.get(spec[1])
    if kind == 'C':
        return ComplexPrior(build(spec[1], pool), build(spec[2], pool))
    if kind == 'T':
        args = [build(a, pool) for a in spec[2]]
        return OPS[spec[1]](*args)
    raise ValueError(spec)


def expected(spec, val_of):
    kind = spec[0]
    if kind == 'F':
        return spec[1]
    if kind == 'P':
        return val_of(spec[1])
    if kind == 'C':
        return c14._symcomplex(expected(spec[1], val_of), expected(spec[2], val_of))
    if kind == 'T':
        return OPS[spec[1]](*[expected(a, val_of) for a in spec[2]])


def guess_of(spec, pool):
    return expected(spec, lambda k: pool.priors[k].guess)


def random_spec(rng, depth=0, allow_complex=False, positive=False):
    r = rng.random()
    if r < 0.3:
        return ('F', round(rng.uniform(0.5, 3.0), 2))
    if r < 0.7 or depth >= 2:
        return ('P', rng.randrange(4))
    if allow_complex and r < 0.8:
        return ('C', random_spec(rng, depth + 1), ('F', 0.01) if rng.random() < 0.5 else ('P', rng.randrange(4)))
    op = rng.choice(['add', 'mul', 'div', 'sqrt'] + ([] if positive else ['neg']))
    if op in ('sqrt', 'neg'):
        # the operand of a square root must be positive
        arg = random_spec(rng, depth + 1, positive=(positive or op == 'sqrt'))
        if op == 'sqrt' and arg[0] == 'F':
            # the square root of a plain number is a plain (rounded) float, not a transformed prior
            arg = ('P', int(round(arg[1] * 100)) % 4)
        return ('T', op, [arg])
    a = random_spec(rng, depth + 1, positive=positive)
    b = random_spec(rng, depth + 1, positive=positive)
    if a[0] == 'F' and b[0] == 'F':
        b = ('P', rng.randrange(4))
    # multiplying a prior by 0/1 or adding 0 are special-cased by the library; keep constants generic
    return ('T', op, [a, b])


def has_prior(spec):
    if spec[0] == 'P':
        return True
    if spec[0] == 'C':
        return has_prior(spec[1]) or has_prior(spec[2])
    if spec[0] == 'T':
        return any(has_prior(a) for a in spec[2])
    return False


NAME_PATTERNS = [[None], ['a'], [None, 'a', 'a', 'a_0'], ['a', 'a', 'b', 'a_0', 'a_1']]


def sphere_sites(rng, layered=False, channel_dict=False):
    """site specs of one sphere"""
    sites = {}
    if layered:
        sites['n'] = [random_spec(rng, allow_complex=True), random_spec(rng)]
        sites['r'] = [random_spec(rng, positive=True), random_spec(rng, positive=True)]
    else:
        sites['n'] = random_spec(rng, allow_complex=True)
        sites['r'] = random_spec(rng, positive=True)
    if channel_dict:
        sites['n'] = {'red': random_spec(rng), 'green': random_spec(rng)}
    sites['center'] = [random_spec(rng), random_spec(rng), random_spec(rng)]
    return sites


def build_sites(sites, pool):
    def b(v):
        if isinstance(v, list):
            return [b(x) for x in v]
        if isinstance(v, dict):
            return {k: b(x) for k, x in v.items()}
        return build(v, pool)
    return {k: b(v) for k, v in sites.items()}


def walk_sites(sites, got, path=''):
    """yield (label, spec, obtained value)"""
    for key, spec in sites.items():
        val = getattr(got, key) if not isinstance(got, dict) else got[key]
        if isinstance(spec, list):
            for i, sp in enumerate(spec):
                yield f'{path}{key}[{i}]', sp, val[i]
        elif isinstance(spec, dict):
            for k2, sp in spec.items():
                v2 = val[k2] if isinstance(val, dict) else val.sel(illumination=k2).item()
                yield f'{path}{key}[{k2}]', sp, v2
        else:
            yield f'{path}{key}', spec, val


def gen_structure(rng):
    kind = rng.choice(['sphere', 'sphere', 'layered', 'spheres2', 'spheres3', 'nested', 'channel'])
    if kind == 'sphere':
        return kind, [sphere_sites(rng)]
    if kind == 'layered':
        return kind, [sphere_sites(rng, layered=True)]
    if kind == 'channel':
        return kind, [sphere_sites(rng, channel_dict=True)]
    if kind == 'spheres2':
        a, b = sphere_sites(rng), sphere_sites(rng)
        # keep the two spheres 10^4 apart along x so that Spheres.overlaps cannot fork
        b['center'][0] = ('T', 'add', [b['center'][0], ('F', 10000.0)])
        return kind, [a, b]
    if kind == 'spheres3':
        return kind, [sphere_sites(rng), sphere_sites(rng, layered=rng.random() < 0.3), sphere_sites(rng)]
    return 'nested', [sphere_sites(rng), sphere_sites(rng), sphere_sites(rng)]


def make_scatterer(kind, site_list, pool):
    spheres = [Sphere(**build_sites(s, pool)) for s in site_list]
    if kind in ('sphere', 'layered', 'channel'):
        return spheres[0]
    if kind == 'spheres2':
        return Spheres(spheres, warn=False)
    if kind == 'spheres3':
        # generic composite: no overlap test (whose comparisons would fork on the symbolic centres)
        return Scatterers(spheres)
    return Scatterers([spheres[0], Scatterers([spheres[1], spheres[2]])])


def members_of(kind, sc):
    if kind in ('sphere', 'layered', 'channel'):
        return [sc]
    if kind in ('spheres2', 'spheres3'):
        return list(sc.scatterers)
    return [sc.scatterers[0], sc.scatterers[1].scatterers[0], sc.scatterers[1].scatterers[1]]


def _all_specs(site_list, extra):
    out = []
    for s in site_list:
        for v in s.values():
            if isinstance(v, list):
                out.extend(v)
            elif isinstance(v, dict):
                out.extend(v.values())
            else:
                out.append(v)
    return out + list(extra)


def _model_case(S, seed, idx):
    rng = random.Random(seed * 1000 + idx)
    kind, site_list = gen_structure(rng)
    names = rng.choice(NAME_PATTERNS)
    pool = Pool(names)
    # the model maps a deep copy of the scatterer's parameters, so sharing is only promised (and only generated)
    # between places of the scatterer: scatterer sites use priors 0-3, alpha / theory / noise use 4-7
    alpha_spec = rng.choice([('F', 0.8), ('P', 4), ('T', 'mul', [('P', 4), ('F', 0.5)])])
    lens_spec = rng.choice([('F', 0.9), ('P', 6)])
    noise_spec = rng.choice([('F', 0.05), ('P', 5)])
    sc = make_scatterer(kind, site_list, pool)
    theory = StubLens(build(lens_spec, pool))
    model = AlphaModel(sc, alpha=build(alpha_spec, pool), noise_sd=build(noise_spec, pool), theory=theory,
                       medium_index=1.33, illum_wavelen=0.66, illum_polarization=(1, 0))
    tag = f'case{idx}.{kind}'
    pars = model._parameters
    # one parameter per distinct prior object, uniquely named
    # (the model works on a deep copy of the scatterer's parameters, so priors are matched by their unique guess)
    def same(p, k):
        return isinstance(p, Uniform) and p.guess == pool.priors[k].guess
    S.claim(f'{tag}.count', len(pars) == len(pool.used) and len(model.parameters) == len(pars))
    S.claim(f'{tag}.each_used_prior_once', all(sum(1 for p in pars if same(p, k)) == 1 for k in pool.used))
    S.claim(f'{tag}.names_unique', len(set(model._parameter_names)) == len(model._parameter_names))
    if not all(sum(1 for p in pars if same(p, k)) == 1 for k in pool.used):
        return 0
    index = {k: next(i for i, p in enumerate(pars) if same(p, k)) for k in pool.used}
    vals = [S.real(f'v{idx}_{i}', lo=0.2, hi=5) for i in range(len(pars))]

    def val_of(k):
        return vals[index[k]]
    got = model.scatterer_from_parameters(vals)
    by_name = model.scatterer_from_parameters({n: v for n, v in zip(model._parameter_names, vals)})
    n_sites = 0
    for m_i, (sites, member, member2) in enumerate(zip(site_list, members_of(kind, got), members_of(kind, by_name))):
        for label, spec, value in walk_sites(sites, member, f'{tag}.s{m_i}.'):
            S.claim_eq(label, value, expected(spec, val_of))
            n_sites += 1
        for label, spec, value in walk_sites(sites, member2, f'{tag}.byname.s{m_i}.'):
            S.claim_eq(label, value, expected(spec, val_of))
    S.claim_eq(f'{tag}.theory', model.theory_from_parameters(vals).lens_angle, expected(lens_spec, val_of))
    S.claim_eq(f'{tag}.alpha', read_map(model._maps['model'], vals)['alpha'], expected(alpha_spec, val_of))
    S.claim_eq(f'{tag}.noise', model._find_noise(vals, None), expected(noise_spec, val_of))
    # initial guess scatterer uses each prior's guess
    g = model.initial_guess_scatterer
    for m_i, (sites, member) in enumerate(zip(site_list, members_of(kind, g))):
        for label, spec, value in walk_sites(sites, member, f'{tag}.guess.s{m_i}.'):
            S.claim_eq(label, value, guess_of(spec, pool))
    S.claim(f'{tag}.initial_guess_values', all(model.initial_guess[n] == p.guess for n, p in model.parameters.items()))
    if vals:
        S.observe(f'{tag}.v0', vals[0])
    return n_sites


def _mk_models(lo, hi, tier='quick'):
    @obligation(f'C11.models.{lo}_{hi}', functions=FUNCS, tier=tier, timeout_s=120, nvalid=2, cost=4,
                stubs=['theory := pure-Python stub with a fittable lens_angle'],
                bounds=f'generated structures #{lo}..{hi - 1} (seeded): sphere / layered sphere / per-channel index / '
                       'Spheres of 2-3 / nested Scatterers; priors from a pool of 6 shared freely across sites, '
                       'transformations of depth <= 2 (+ * / sqrt neg, ComplexPrior), alpha / theory / noise sites, '
                       '4 name-collision patterns; symbolic value vector')
    def ob(S):
        _setup(S)
        seed = 7
        total = 0
        for idx in range(lo, hi):
            total += _model_case(S, seed, idx)
        S.claim('some_sites_checked', total > 0)
    return ob


for _lo in range(0, 40, 10):
    _mk_models(_lo, _lo + 10)
for _lo in range(40, 400, 20):
    _mk_models(_lo, _lo + 20, tier='thorough')


# ---------------------------------------------------------------------------
# ties
# ---------------------------------------------------------------------------

@obligation('C11.add_tie.all_subsets', functions=FUNCS, timeout_s=120, nvalid=2, cost=3,
            stubs=['theory := pure-Python stub'],
            bounds='two-sphere model with 5 equal-but-distinct priors (n, r of both spheres, z of the first) plus 2 '
                   'other parameters; every subset of size >= 2 of the 5 tie candidates (26 subsets), with and without '
                   'a new name; symbolic value vector')
def add_tie_subsets(S):
    _setup(S)

    def mk():
        tied = [Uniform(0.5, 2.0, guess=1.0, name=f't{i}') for i in range(5)]
        x0 = Gaussian(0.0, 1.0, name='x0')
        y1 = Uniform(-1.0, 1.0, name='y1')
        sp = Spheres([Sphere(n=tied[0], r=tied[1], center=(x0, 0.0, tied[4])),
                      Sphere(n=tied[2], r=tied[3], center=(3000.0, y1, 4.0))], warn=False)
        return AlphaModel(sp, alpha=1.0, theory=StubLens(), medium_index=1.33, illum_wavelen=0.66,
                          illum_polarization=(1, 0)), tied, x0, y1
    sites = {'t0': lambda sc: sc.scatterers[0].n, 't1': lambda sc: sc.scatterers[0].r,
             't4': lambda sc: sc.scatterers[0].center[2], 't2': lambda sc: sc.scatterers[1].n,
             't3': lambda sc: sc.scatterers[1].r, 'x0': lambda sc: sc.scatterers[0].center[0],
             'y1': lambda sc: sc.scatterers[1].center[1]}
    base_model, _, _, _ = mk()
    base_names = list(base_model._parameter_names)
    S.claim('base_names', sorted(base_names) == sorted(sites))
    cand = ['t0', 't1', 't2', 't3', 't4']
    case = 0
    for k in range(2, 6):
        for subset in itertools.combinations(cand, k):
            case += 1
            model, tied, x0, y1 = mk()
            new_name = 'tied' if case % 2 else None
            order = list(subset) if case % 3 else list(reversed(subset))
            model.add_tie(order, new_name=new_name)
            names = model._parameter_names
            tag = 'tie_' + '_'.join(subset)
            S.claim(f'{tag}.removed_exactly_duplicates', len(names) == 7 - (k - 1))
            S.claim(f'{tag}.names_unique', len(set(names)) == len(names))
            vals = [S.real(f'w{i}', lo=0.2, hi=5) for i in range(len(names))]
            sc = model.scatterer_from_parameters(vals)
            # surviving parameter of the tie: the one with the smallest original index
            first = min(subset, key=base_names.index)
            surv_name = new_name if new_name else first
            S.claim(f'{tag}.survivor_name', surv_name in names)
            if surv_name not in names:
                continue
            surv_val = vals[names.index(surv_name)]
            for nm, getter in sites.items():
                if nm in subset:
                    S.claim_eq(f'{tag}.{nm}_reads_survivor', getter(sc), surv_val)
                else:
                    S.claim(f'{tag}.{nm}_still_a_parameter', nm in names)
                    if nm in names:
                        S.claim_eq(f'{tag}.{nm}_unchanged', getter(sc), vals[names.index(nm)])
    S.observe('w0', S.real('w0', lo=0.2, hi=5))
    # unequal or unknown parameters cannot be tied
    model, tied, x0, y1 = mk()
    for bad in (['t0', 'x0'], ['t0', 'nope']):
        try:
            model.add_tie(bad)
            ok = False
        except ValueError:
            ok = True
        S.claim(f'reject_{bad[1]}', ok)
    S.claim('rejected_ties_leave_model_unchanged', list(model._parameter_names) == base_names)


# ---------------------------------------------------------------------------
# rebuild from own parameters
# ---------------------------------------------------------------------------

@obligation('C11.from_parameters.roundtrip', functions=FUNCS, timeout_s=120, nvalid=2,
            bounds='Sphere, layered Sphere, LayeredSphere, Spheres of 2, nested Scatterers with symbolic attribute '
                   'values: s.from_parameters(s.parameters) reproduces every attribute without sharing mutable state; '
                   'RigidCluster rebuilds to the equivalent rotated+translated collection')
def from_parameters_roundtrip(S):
    _setup(S)
    c = [S.real(f'c{i}') for i in range(3)]
    r, r2, n, n2 = S.real('r', pos=True), S.real('r2', pos=True), S.real('n', pos=True), S.real('n2', pos=True)
    obj = object if S.sym else float
    cases = {
        'sphere': Sphere(n=n, r=r, center=list(c)),
        'layered': Sphere(n=[n, n2], r=[r, r + r2], center=list(c)),
        'layeredsphere': LayeredSphere(n=[n, n2], t=[r, r2], center=list(c)),
    }
    for tag, s in cases.items():
        p = s.parameters
        new = s.from_parameters(p)
        S.claim(f'{tag}.type', type(new) is type(s))
        S.claim_eq(f'{tag}.n', np.array(new.n, dtype=obj).reshape(-1), np.array(s.n, dtype=obj).reshape(-1))
        S.claim_eq(f'{tag}.r', np.array(new.r, dtype=obj).reshape(-1), np.array(s.r, dtype=obj).reshape(-1))
        S.claim_eq(f'{tag}.center', np.array(new.center, dtype=obj), np.array(s.center, dtype=obj))
        S.claim(f'{tag}.new_object', new is not s)
        # no shared mutable state: editing the copy / the parameter dict leaves the original alone
        before = [x for x in s.center]
        try:
            new.center[0] = 99.0
        except TypeError:
            pass
        p['center'] = None
        S.claim_eq(f'{tag}.original_untouched', np.array(s.center, dtype=obj), np.array(before, dtype=obj))
        partial = s.from_parameters({'center': [1.0, 2.0, 3.0]})
        S.claim_eq(f'{tag}.partial_keeps_r', np.array(partial.r, dtype=obj).reshape(-1), np.array(s.r, dtype=obj).reshape(-1))
        S.claim(f'{tag}.partial_sets_center', list(partial.center) == [1.0, 2.0, 3.0])
    s1 = Sphere(n=n, r=r, center=[c[0], c[1], c[2]])
    s2 = Sphere(n=n2, r=r2, center=[c[0] + 5, c[1], c[2]])
    s3 = Sphere(n=n2, r=r, center=[c[0], c[1] + 7, c[2]])
    for tag, coll, flat in (('spheres', Spheres([s1, s2], warn=False), lambda x: x.scatterers),
                            ('nested', Scatterers([s1, Scatterers([s2, s3])]),
                             lambda x: [x.scatterers[0]] + list(x.scatterers[1].scatterers))):
        new = coll.from_parameters(coll.parameters)
        S.claim(f'{tag}.type', type(new) is type(coll))
        for i, (a, b) in enumerate(zip(flat(new), flat(coll))):
            S.claim_eq(f'{tag}[{i}].n', a.n, b.n)
            S.claim_eq(f'{tag}[{i}].r', a.r, b.r)
            S.claim_eq(f'{tag}[{i}].center', np.array(a.center, dtype=obj), np.array(b.center, dtype=obj))
            S.claim(f'{tag}[{i}].not_shared', a is not b)
    S.observe('r', r)
    # rigid cluster
    al, be, ga = S.angle('alpha'), S.angle('beta'), S.angle('gamma')
    t = [S.real(f't{i}') for i in range(3)]
    for v in t + [al, be, ga]:
        S.assume(v != 3, 'component != 3 (fork cut)')
    if S.sym:
        S.patch(hm, 'pi', S.pi)
    rc = RigidCluster(Spheres([s1, s2], warn=False), translation=tuple(t), rotation=(al, be, ga))
    rebuilt = rc.from_parameters(rc.parameters)
    ref = Spheres([s1, s2], warn=False).rotated(al, be, ga).translated(t)
    for i in range(2):
        S.claim_eq(f'rigid[{i}].center', np.array(rebuilt.scatterers[i].center, dtype=obj),
                   np.array(ref.scatterers[i].center, dtype=obj))
        S.claim_eq(f'rigid[{i}].r', rebuilt.scatterers[i].r, ref.scatterers[i].r)


# ---------------------------------------------------------------------------
# index arithmetic of ties: the real edit_map_indices on symbolic tie indices
# ---------------------------------------------------------------------------

def _mk_index_lemma(n, k, tier='quick'):
    @obligation(f'C11.edit_map_indices.n{n}_k{k}', functions=[MP + 'edit_map_indices'], tier=tier, max_paths=4000,
                timeout_s=60, nvalid=2, cost=2,
                bounds=f'{n} parameters, tie set of {k} symbolic strictly increasing integer indices in [0,{n}), every '
                       'old index j: result = i0 if j in S else j - |{i in S minus {i0}: i < j}| (z3 LIA; paths = '
                       'orderings of j against the tie indices)')
    def ob(S):
        idx = [S.real(f'i{m}', lo=0, hi=n - 1) for m in range(k)]
        if S.sym:
            for v in idx:
                S.assume(z3.IsInt(v.term()), 'tie index is an integer')
            for a, b in zip(idx, idx[1:]):
                S.assume(a < b)
        else:
            idx = [int(round(v)) for v in idx]
            if any(a >= b for a, b in zip(idx, idx[1:])):
                from symx.harness import Discard
                raise Discard('not increasing')
        for j in range(n):
            out = edit_map_indices(['_parameter_%d' % j, [dict, ['_parameter_%d' % j]], 3.5], idx)
            tok = out[0][len('_parameter_'):]
            S.claim(f'j{j}.structure_kept', out[2] == 3.5 and out[1][0] is dict and out[1][1][0] == out[0])
            new = core.parse_token(tok) if S.sym else float(tok)
            in_set = False
            shift = 0
            for m, v in enumerate(idx):
                hit = bool(v == j)
                in_set = in_set or hit
                if m > 0 and bool(v < j):
                    shift += 1
            if in_set:
                S.claim_eq(f'j{j}.tied_to_first', new, idx[0])
            else:
                S.claim_eq(f'j{j}.shifted', new, j - shift)
        S.observe('i0', idx[0])
    return ob


_mk_index_lemma(5, 2)
_mk_index_lemma(6, 3)
_mk_index_lemma(8, 3, tier='thorough')
_mk_index_lemma(8, 4, tier='thorough')


@obligation('C11.names.tied_pairs', functions=FUNCS, timeout_s=120, nvalid=2,
            stubs=['theory := pure-Python stub'],
            bounds='4 spheres in which spheres (0,1) share one radius prior and (2,3) share another (same key in both '
                   'pairs), and 2 spheres sharing r next to another prior explicitly named "r": parameter names stay '
                   'unique, one per distinct prior; name-keyed and list-ordered values give the same scatterer')
def names_tied_pairs(S):
    _setup(S)
    ra = Uniform(0.2, 1.0, guess=0.4)
    rb = Uniform(0.2, 1.0, guess=0.6)
    four = Scatterers([Sphere(n=1.5, r=ra, center=(0.0, 0.0, 5.0)), Sphere(n=1.5, r=ra, center=(9.0, 0.0, 5.0)),
                       Sphere(n=1.5, r=rb, center=(0.0, 9.0, 5.0)), Sphere(n=1.5, r=rb, center=(9.0, 9.0, 5.0))])
    rc = Uniform(0.2, 1.0, guess=0.5)
    other = Uniform(1.0, 3.0, guess=2.0, name='r')
    two = Scatterers([Sphere(n=1.5, r=rc, center=(0.0, 0.0, other)), Sphere(n=1.5, r=rc, center=(9.0, 0.0, 5.0))])
    for tag, sc, nprior, getters in (
            ('four', four, 2, [lambda s: s.scatterers[0].r, lambda s: s.scatterers[1].r,
                               lambda s: s.scatterers[2].r, lambda s: s.scatterers[3].r]),
            ('two', two, 2, [lambda s: s.scatterers[0].r, lambda s: s.scatterers[1].r,
                             lambda s: s.scatterers[0].center[2]])):
        model = AlphaModel(sc, alpha=1.0, theory=StubLens(), medium_index=1.33, illum_wavelen=0.66,
                           illum_polarization=(1, 0))
        names = list(model._parameter_names)
        S.claim(f'{tag}.one_parameter_per_prior', len(model._parameters) == nprior)
        S.claim(f'{tag}.names_unique', len(set(names)) == len(names))
        S.claim(f'{tag}.parameters_dict_complete', len(model.parameters) == nprior and
                len(model.initial_guess) == nprior)
        vals = [S.real(f'{tag}_v{i}', lo=0.2, hi=3.0) for i in range(len(model._parameters))]
        by_list = model.scatterer_from_parameters(vals)
        by_name = model.scatterer_from_parameters({n: v for n, v in zip(names, vals)}) \
            if len(set(names)) == len(names) else None
        S.claim(f'{tag}.name_keyed_possible', by_name is not None)
        guesses = [p.guess for p in model._parameters]
        for gi, g in enumerate(getters):
            site_guess = g(model.initial_guess_scatterer)
            idx = guesses.index(site_guess) if site_guess in guesses else None
            S.claim(f'{tag}.site{gi}.guess_identifies_prior', idx is not None)
            if idx is not None:
                S.claim_eq(f'{tag}.site{gi}.list', g(by_list), vals[idx])
                if by_name is not None:
                    S.claim_eq(f'{tag}.site{gi}.by_name', g(by_name), vals[idx])
    S.observe('v', S.real('four_v0', lo=0.2, hi=3.0))


@obligation('C11.values.unrestricted', functions=FUNCS + ['holopy.scattering.theory.scatteringtheory.ScatteringTheory.from_parameters',
                                                          'holopy.core.prior.Prior.__rsub__', 'holopy.core.prior.Prior.__sub__',
                                                          'holopy.core.prior.Prior.__rtruediv__'],
            timeout_s=120, nvalid=2, stubs=['theory := pure-Python stub with a fittable lens_angle'],
            bounds='one sphere whose centre uses p, 2-p, q-2 (subtraction in both operand orders), index 3/q-free '
                   'forms, theory / alpha / noise priors; the value vector is unrestricted (zero and negative values '
                   'included): every place receives the operation applied to the value of its prior')
def values_unrestricted(S):
    _setup(S)
    p = Uniform(-5.0, 5.0, guess=0.5)
    q = Uniform(-5.0, 5.0, guess=1.5)
    w = Uniform(0.5, 5.0, guess=2.5)
    lens = Uniform(-1.0, 1.0, guess=0.25)
    alpha = Uniform(-1.0, 1.0, guess=0.75)
    noise = Uniform(-1.0, 1.0, guess=0.125)
    sph = Sphere(n=3 / w, r=0.5, center=(p, 2 - p, q - 2))
    model = AlphaModel(sph, alpha=alpha, noise_sd=noise, theory=StubLens(lens), medium_index=1.33,
                       illum_wavelen=0.66, illum_polarization=(1, 0))
    pars = model._parameters
    S.claim('count', len(pars) == 6)
    order = {}
    for name, pr in (('p', p), ('q', q), ('w', w), ('lens', lens), ('alpha', alpha), ('noise', noise)):
        hits = [i for i, x in enumerate(pars) if x.guess == pr.guess]
        S.claim(f'{name}.mapped_once', len(hits) == 1)
        if len(hits) != 1:
            return
        order[name] = hits[0]
    vals = [S.real(f'v{i}') for i in range(6)]
    v = {k: vals[i] for k, i in order.items()}
    S.assume(v['w'] > 0)
    S.observe('v_lens', v['lens'])
    for tag, given in (('list', vals), ('by_name', {n: x for n, x in zip(model._parameter_names, vals)})):
        sc = model.scatterer_from_parameters(given)
        S.claim_eq(f'{tag}.center_x', sc.center[0], v['p'])
        S.claim_eq(f'{tag}.center_y', sc.center[1], 2 - v['p'])
        S.claim_eq(f'{tag}.center_z', sc.center[2], v['q'] - 2)
        S.claim_eq(f'{tag}.index', sc.n, 3 / v['w'])
        th = model.theory_from_parameters(given)
        S.claim(f'{tag}.theory_type', type(th) is StubLens)
        S.claim_eq(f'{tag}.theory', th.lens_angle, v['lens'])
    S.claim_eq('alpha', read_map(model._maps['model'], vals)['alpha'], v['alpha'])
    S.claim_eq('noise', model._find_noise(vals, None), v['noise'])
    # the theory's own from_parameters: any value replaces the old one, the rest is kept
    t0 = StubLens(0.7)
    x = S.real('x')
    S.claim_eq('theory_from_parameters.replaces', t0.from_parameters({'lens_angle': x}).lens_angle, x)
    S.claim('theory_from_parameters.keeps', t0.from_parameters({}).lens_angle == 0.7)
    S.claim('theory_from_parameters.original_untouched', t0.lens_angle == 0.7)
