"""C12 - posterior = prior x Gaussian likelihood, exactly as documented."""
import numpy as np
import xarray as xr

from symx import core
from symx.core import SymR
from symx.harness import obligation
from symx.shim import shim_np, shim_xarray_mean, shim_np_both

LEVEL = 'model_checking'
ASSUMPTIONS = [
    "floats are modelled as reals; log is an uninterpreted function (the same on both sides of every identity)",
    "the forward scattering kernel is a counting stub returning an arbitrary complex field per (sphere, pixel)",
    "numpy.random.choice (pixel subsets) is replaced by a stub returning a prescribed selection",
    "medium index / wavelength concrete; parameter values, data pixels and noise levels symbolic",
]

import holopy.inference.model as model_mod
import holopy.core.prior as prior_mod
import holopy.core.utils as utils
import holopy.core.mapping as mapping_mod
import holopy.core.metadata as meta
from holopy.core.metadata import data_grid, detector_grid
from holopy.core.prior import Uniform, Gaussian, BoundedGaussian, ComplexPrior
from holopy.core.utils import LnpostWrapper
from holopy.inference.model import AlphaModel, ExactModel, LimitOverlaps
from holopy.scattering import calc_holo
from holopy.scattering.scatterer import Sphere, Spheres

from props.C01 import make_stub_theory, setup as c01_setup, _flatvals
import props.C14 as c14

MM = 'holopy.inference.model.'
FUNCS = [MM + 'Model.lnprior', MM + 'Model._lnprior', MM + 'Model.lnlike', MM + 'Model._lnlike',
         MM + 'Model.lnposterior', MM + 'Model._lnposterior', MM + 'Model._residuals', MM + 'Model._find_noise',
         MM + 'Model._find_optics', MM + 'Model.forward', MM + 'AlphaModel._forward', MM + 'ExactModel._forward',
         MM + 'Model.scatterer_from_parameters', MM + 'Model.theory_from_parameters',
         'holopy.core.mapping.read_map', 'holopy.core.prior.Uniform.lnprob', 'holopy.core.prior.Gaussian.lnprob',
         'holopy.core.prior.BoundedGaussian.lnprob', 'holopy.core.utils.LnpostWrapper.evaluate',
         'holopy.scattering.interface.calc_holo']


def setup(S, selection=None):
    c01_setup(S)
    if S.sym:
        for m in (model_mod, prior_mod, mapping_mod):
            shim_np(S, m)
        S.patch(prior_mod, 'complex', c14._symcomplex)
    if selection is not None:
        class _R:
            calls = []

            @staticmethod
            def choice(n, k, replace=True):
                _R.calls.append((n, k, replace))
                return np.array(selection[:k])

            @staticmethod
            def seed(s):
                _R.calls.append(('seed', s))
        shim_np_both(S, meta, {'random': _R})
        return _R
    return None


def _data(S, shape=(2, 2), noise='data_noise', name='d'):
    vals = np.empty(shape, dtype=object if S.sym else float)
    for i in range(shape[0]):
        for j in range(shape[1]):
            vals[i, j] = S.real(f'{name}{i}{j}')
    nz = S.real(noise, pos=True) if noise else None
    return data_grid(vals, spacing=0.1, medium_index=1.33, illum_wavelen=0.66, illum_polarization=(1, 0),
                     noise_sd=nz), vals, nz


def _tag(s):
    # spheres are told apart by their refractive index when it is concrete
    n = s.n
    if core.is_sym(n) and not (isinstance(n, SymR) and n.c is not None):
        return 'E0_'
    return 'E%d_' % int(round(float(np.real(n)) * 1000))


def _is_minf(x):
    return core._is_inf(x) and x < 0


def _log(S, x):
    return np.log(x)


def _gauss_lnlike(S, forward_vals, data_vals, sigma, N):
    two_pi = 2 * S.pi if S.sym else 2 * np.pi
    res = sum(((f - d) / sigma) ** 2 for f, d in zip(forward_vals, data_vals))
    return -N / 2 * np.log(two_pi) - N * np.log(sigma) - 0.5 * res


def _uniform_ln(lb, ub):
    return np.log(1 / (ub - lb))


def _gauss_ln(S, mu, sd, p):
    return -np.log(sd * np.sqrt(2 * S.pi if S.sym else 2 * np.pi)) - (p - mu) ** 2 / (2 * sd ** 2)


@obligation('C12.alpha_model', functions=FUNCS, max_paths=400, timeout_s=120, nvalid=2, cost=5,
            stubs=['ScatteringTheory.raw_fields := counting stub (arbitrary field per pixel)'],
            bounds='AlphaModel, one sphere: n ~ Uniform, r ~ Uniform(-0.1, 1) (negative radius = invalid '
                   'scatterer), x ~ Gaussian, alpha ~ Uniform; 2x2 data with symbolic pixels and data noise; '
                   'all parameter vectors inside and outside support')
def alpha_model(S):
    setup(S)
    log = []
    theory = make_stub_theory(S, log=log, tagger=_tag)
    n_lb, n_ub = 1.4, 1.7
    pn = Uniform(n_lb, n_ub, name='n')
    pr = Uniform(-0.1, 1.0, guess=0.5, name='r')
    mu_x, sd_x = S.real('mu_x'), S.real('sd_x', pos=True)
    px = Gaussian(mu_x, sd_x, name='x')
    pa = Uniform(0.5, 1.0, name='alpha')
    model = AlphaModel(Sphere(n=pn, r=pr, center=(px, 0.4, 3.0)), alpha=pa, theory=theory)
    S.claim('parameter_names', list(model.parameters.keys()) == ['n', 'r', 'x', 'alpha'])
    vn, vr, vx, va = S.real('v_n'), S.real('v_r'), S.real('v_x'), S.real('v_alpha')
    pars = {'n': vn, 'r': vr, 'x': vx, 'alpha': va}
    data, dvals, noise = _data(S)
    n0 = len(log)
    lpost = model.lnposterior(pars, data)
    calls_post = len(log) - n0
    lprior = model.lnprior(pars)
    inside = ((vn >= n_lb) & (vn <= n_ub) & (vr >= -0.1) & (vr <= 1.0) & (va >= 0.5) & (va <= 1.0)) if S.sym else \
        (n_lb <= vn <= n_ub and -0.1 <= vr <= 1.0 and 0.5 <= va <= 1.0)
    valid = (vr >= 0)
    finite = (inside & valid) if S.sym else (inside and valid)
    S.claim_iff('minus_inf_iff_outside_support_or_invalid', _is_minf(lprior), ~finite if S.sym and not isinstance(finite, bool) else (not finite))
    S.claim('posterior_minus_inf_with_prior', _is_minf(lpost) == _is_minf(lprior))
    if _is_minf(lprior):
        S.claim('no_forward_call_when_prior_forbids', calls_post == 0)
        return
    S.observe('lnposterior', lpost)
    llike = model.lnlike(pars, data)
    S.claim('forward_called_once_per_likelihood', calls_post == 1)
    S.claim_eq('posterior_is_prior_plus_likelihood', lpost, lprior + llike)
    ref_prior = _uniform_ln(n_lb, n_ub) + _uniform_ln(-0.1, 1.0) + _gauss_ln(S, mu_x, sd_x, vx) + _uniform_ln(0.5, 1.0)
    S.claim_eq('prior_is_sum_of_lnprobs', lprior, ref_prior)
    # forward model == public hologram calculation for the substituted objects
    fwd = model.forward(pars, data)
    direct = calc_holo(data, Sphere(n=vn, r=vr, center=(vx, 0.4, 3.0)), medium_index=1.33, illum_wavelen=0.66,
                       illum_polarization=(1, 0), theory=theory, scaling=va)
    S.claim_eq('forward_is_calc_holo', _flatvals(fwd).reshape(-1), _flatvals(direct).reshape(-1))
    S.claim_eq('likelihood_is_gaussian', llike,
               _gauss_lnlike(S, _flatvals(direct).reshape(-1), dvals.reshape(-1), noise, 4))
    sc = model.scatterer_from_parameters(pars)
    S.claim_eq('scatterer_r', sc.r, vr)
    S.claim_eq('scatterer_n', sc.n, vn)
    S.claim_eq('scatterer_x', sc.center[0], vx)
    w = LnpostWrapper(model, data, minus=True)
    S.claim_eq('wrapper_negates', w.evaluate([vn, vr, vx, va]), -lpost)
    S.claim_eq('list_and_dict_agree', model.lnposterior([vn, vr, vx, va], data), lpost)


@obligation('C12.exact_model_noise', functions=FUNCS, max_paths=400, timeout_s=120, nvalid=2, cost=3,
            stubs=['calc_func := counting wrapper around calc_holo with the stub theory'],
            bounds='ExactModel with custom calculation function, z ~ BoundedGaussian, r ~ Uniform; noise given in the '
                   'model (fixed symbolic value) overrides the data noise; optics taken from the model; 1x3 data')
def exact_model_noise(S):
    setup(S)
    log = []
    theory = make_stub_theory(S, log=log, tagger=_tag)
    count = []

    def calc(detector, scatterer, **kw):
        count.append(kw)
        return calc_holo(detector, scatterer, **kw)
    mu, sd, lb, ub = 3.0, S.real('sd_z', pos=True), 1.0, 5.0
    pz = BoundedGaussian(mu, sd, lb, ub, name='z')
    pr = Uniform(0.2, 1.0, name='r')
    model_noise = S.real('model_noise', pos=True)
    model = ExactModel(Sphere(n=1.59, r=pr, center=(0.2, 0.4, pz)), calc_func=calc, noise_sd=model_noise,
                       medium_index=1.4, illum_wavelen=0.5, illum_polarization=(0, 1), theory=theory)
    vz, vr = S.real('v_z'), S.real('v_r')
    data, dvals, data_noise = _data(S, (1, 3))
    pars = [vr, vz] if list(model.parameters) == ['r', 'z'] else None
    S.claim('parameter_order', list(model.parameters) == ['r', 'z'])
    lpost = model.lnposterior(pars, data)
    ncalls = len(count)
    lprior = model.lnprior(pars)
    inside = ((vz >= lb) & (vz <= ub) & (vr >= 0.2) & (vr <= 1.0)) if S.sym else (lb <= vz <= ub and 0.2 <= vr <= 1.0)
    S.claim_iff('minus_inf_iff_outside_support', _is_minf(lprior), ~inside if S.sym and not isinstance(inside, bool) else (not inside))
    if _is_minf(lprior):
        S.claim('no_forward_call_when_prior_forbids', ncalls == 0 and _is_minf(lpost))
        return
    S.observe('lnposterior', lpost)
    S.claim('calc_func_called_once', ncalls == 1)
    kw = count[0]
    S.claim('optics_from_model', kw.get('medium_index') == 1.4 and kw.get('illum_wavelen') == 0.5)
    llike = model.lnlike(pars, data)
    S.claim_eq('posterior_is_prior_plus_likelihood', lpost, lprior + llike)
    S.claim_eq('prior_is_sum_of_lnprobs', lprior, _uniform_ln(0.2, 1.0) + _gauss_ln(S, mu, sd, vz))
    direct = calc_holo(data, Sphere(n=1.59, r=vr, center=(0.2, 0.4, vz)), medium_index=1.4, illum_wavelen=0.5,
                       illum_polarization=(0, 1), theory=theory)
    S.claim_eq('likelihood_uses_model_noise', llike,
               _gauss_lnlike(S, _flatvals(direct).reshape(-1), dvals.reshape(-1), model_noise, 3))
    S.claim_eq('forward_is_calc_holo', _flatvals(model.forward(pars, data)).reshape(-1), _flatvals(direct).reshape(-1))


@obligation('C12.constraint_and_subset', functions=FUNCS + [MM + 'LimitOverlaps.check',
                                                             'holopy.core.metadata.make_subset_data'],
            max_paths=400, timeout_s=120, nvalid=2, cost=5,
            stubs=['numpy.random.choice := prescribed selection', 'raw_fields := counting stub'],
            bounds='AlphaModel on two spheres with a shared radius prior and a LimitOverlaps constraint of symbolic '
                   'fraction; 2x2 data, full image and a 3-pixel subset (selection [3,0,2])')
def constraint_and_subset(S):
    R = setup(S, selection=[3, 0, 2])
    log = []
    theory = make_stub_theory(S, log=log, tagger=_tag, by_position=True)
    pr = Uniform(0.3, 0.8, name='r')
    pz = Uniform(0.0, 3.0, name='sep')
    frac = S.real('fraction', lo=0, hi=1)
    spheres = Spheres([Sphere(n=1.59, r=pr, center=(0.2, 0.4, 3.0)),
                       Sphere(n=1.58, r=pr, center=(0.2, 0.4, 3.0 + pz))], warn=False)
    model = AlphaModel(spheres, alpha=1.0, theory=theory, constraints=[LimitOverlaps(frac)])
    S.claim('one_shared_parameter', list(model.parameters) == ['r', '1:center.2'] or len(model.parameters) == 2)
    vr, vsep = S.real('v_r'), S.real('v_sep')
    names = list(model.parameters)
    pars = {names[0]: vr, names[1]: vsep}
    data, dvals, noise = _data(S)
    n0 = len(log)
    lpost = model.lnposterior(pars, data)
    ncalls = len(log) - n0
    lprior = model.lnprior(pars)
    inside = ((vr >= 0.3) & (vr <= 0.8) & (vsep >= 0.0) & (vsep <= 3.0)) if S.sym else (0.3 <= vr <= 0.8 and 0 <= vsep <= 3)
    # overlap of two equal spheres at distance |sep|: 2r - |sep| (clipped at 0); allowed iff <= 2 r fraction
    absep = abs(vsep)
    ok_constraint = (2 * vr - absep <= 2 * vr * frac)
    finite = (inside & ok_constraint) if S.sym else (inside and ok_constraint)
    S.claim_iff('minus_inf_iff_outside_or_constraint_violated', _is_minf(lprior),
                ~finite if S.sym and not isinstance(finite, bool) else (not finite))
    if _is_minf(lprior):
        S.claim('no_forward_call_when_forbidden', ncalls == 0 and _is_minf(lpost))
        return
    S.observe('lnposterior', lpost)
    S.claim('both_spheres_computed', ncalls == 2)
    llike = model.lnlike(pars, data)
    S.claim_eq('posterior_is_prior_plus_likelihood', lpost, lprior + llike)
    S.claim_eq('prior_is_sum_of_lnprobs', lprior, _uniform_ln(0.3, 0.8) + _uniform_ln(0.0, 3.0))
    sc = model.scatterer_from_parameters(pars)
    S.claim_eq('shared_radius_0', sc.scatterers[0].r, vr)
    S.claim_eq('shared_radius_1', sc.scatterers[1].r, vr)
    S.claim_eq('separation', sc.scatterers[1].center[2], 3.0 + vsep)
    # pixel subset: selection commutes with the forward model, likelihood over the 3 selected pixels
    sub_post = model.lnposterior(pars, data, pixels=3)
    S.claim('choice_args', bool(R.calls) and R.calls[-1] == (4, 3, False))
    full = _flatvals(model.forward(pars, data)).reshape(-1)
    sel = [3, 0, 2]
    S.claim_eq('subset_posterior', sub_post,
               lprior + _gauss_lnlike(S, [full[i] for i in sel], [dvals.reshape(-1)[i] for i in sel], noise, 3))


@obligation('C12.noise_rules', functions=[MM + 'Model._find_noise', MM + 'Model._lnlike'], max_paths=64,
            stubs=['raw_fields := counting stub'], nvalid=2,
            bounds='noise precedence: model noise prior (a fitted parameter) > data noise; no noise anywhere: 1 for '
                   'all-Uniform models, MissingParameter otherwise; 1x2 data')
def noise_rules(S):
    from holopy.scattering.errors import MissingParameter
    setup(S)
    theory = make_stub_theory(S, tagger=_tag)
    pr = Uniform(0.2, 1.0, name='r')
    pnoise = Uniform(0.01, 1.0, name='noise_sd')
    data, dvals, data_noise = _data(S, (1, 2))
    data_nonoise, dv2, _ = _data(S, (1, 2), noise=None, name='e')
    vr, vnz = S.real('v_r', lo=0.2, hi=1.0), S.real('v_noise', lo=0.01, hi=1.0)
    m1 = AlphaModel(Sphere(n=1.59, r=pr, center=(0.2, 0.4, 3.0)), alpha=1.0, noise_sd=pnoise, theory=theory)
    names = list(m1.parameters)
    S.claim('noise_is_a_parameter', 'noise_sd' in names and len(names) == 2)
    pars = {'r': vr, 'noise_sd': vnz}
    direct = _flatvals(calc_holo(data, Sphere(n=1.59, r=vr, center=(0.2, 0.4, 3.0)), theory=theory)).reshape(-1)
    S.claim_eq('fitted_noise_used', m1.lnlike(pars, data), _gauss_lnlike(S, direct, dvals.reshape(-1), vnz, 2))
    S.observe('like', m1.lnlike(pars, data))
    m2 = AlphaModel(Sphere(n=1.59, r=pr, center=(0.2, 0.4, 3.0)), alpha=1.0, theory=theory)
    S.claim_eq('data_noise_used', m2.lnlike({'r': vr}, data), _gauss_lnlike(S, direct, dvals.reshape(-1), data_noise, 2))
    direct2 = _flatvals(calc_holo(data_nonoise, Sphere(n=1.59, r=vr, center=(0.2, 0.4, 3.0)), theory=theory)).reshape(-1)
    S.claim_eq('all_uniform_defaults_to_one', m2.lnlike({'r': vr}, data_nonoise),
               _gauss_lnlike(S, direct2, dv2.reshape(-1), 1, 2))
    m3 = AlphaModel(Sphere(n=1.59, r=Gaussian(0.5, 0.1, name='r'), center=(0.2, 0.4, 3.0)), alpha=1.0, theory=theory)
    try:
        m3.lnlike({'r': vr}, data_nonoise)
        ok = False
    except MissingParameter:
        ok = True
    S.claim('missing_noise_with_gaussian_prior_raises', ok)


@obligation('C12.history.reused_parameter_list', functions=FUNCS, max_paths=200, timeout_s=120, nvalid=2,
            stubs=['raw_fields := counting stub'],
            bounds='the same list object passed to consecutive evaluations and edited in place between them '
                   '(r ~ Uniform(-0.1,1), x ~ Gaussian): every evaluation equals the evaluation of a fresh list; '
                   'evaluating other parameter values in between changes nothing')
def reused_parameter_list(S):
    setup(S)
    log = []
    theory = make_stub_theory(S, log=log, tagger=_tag)
    pr = Uniform(-0.1, 1.0, guess=0.5, name='r')
    px = Gaussian(0.0, 1.0, name='x')
    model = AlphaModel(Sphere(n=1.59, r=pr, center=(px, 0.4, 3.0)), alpha=1.0, theory=theory)
    r1, r2, x1 = S.real('r1'), S.real('r2'), S.real('x1')
    data, dvals, noise = _data(S, (1, 2))
    plist = [r1, x1]
    first = model.lnposterior(plist, data)
    plist[0] = r2                      # edited in place
    n0 = len(log)
    second = model.lnposterior(plist, data)
    calls_second = len(log) - n0
    from holopy.scattering.errors import InvalidScatterer
    try:
        sc = model.scatterer_from_parameters(plist)
    except InvalidScatterer:
        sc = None
    fresh_second = model.lnposterior([r2, x1], data)
    again_first = model.lnposterior([r1, x1], data)
    if sc is not None:
        S.claim_eq('scatterer_follows_edit', sc.r, r2)
    else:
        S.claim('invalid_scatterer_only_for_negative_radius', r2 < 0)
    for tag, got, ref in (('second', second, fresh_second), ('first_again', again_first, first)):
        if _is_minf(got) or _is_minf(ref):
            S.claim(tag + '.both_minus_inf', _is_minf(got) and _is_minf(ref))
        else:
            S.claim_eq(tag + '.same_value', got, ref)
    inside2 = ((r2 >= 0) & (r2 <= 1.0)) if S.sym else (0 <= r2 <= 1.0)
    S.claim_iff('second_minus_inf_iff_forbidden', _is_minf(second),
                ~inside2 if S.sym and not isinstance(inside2, bool) else (not inside2))
    if _is_minf(second):
        S.claim('no_forward_call_when_forbidden', calls_second == 0)
    else:
        S.observe('second', second)


def _channel_data(S, noise):
    labels = ['red', 'green']
    vals = np.empty((1, 2, 2), dtype=object if S.sym else float)
    for j in range(2):
        for c in range(2):
            vals[0, j, c] = S.real(f'd{j}{labels[c]}')
    return data_grid(vals, spacing=0.1, medium_index=1.33, illum_wavelen={'red': 0.66, 'green': 0.52},
                     illum_polarization={'red': (1, 0), 'green': (0, 1)}, noise_sd=noise,
                     extra_dims={'illumination': labels}), vals, labels


def _per_channel_body(S, where):
    from props.C06 import uf_theory
    setup(S)
    theory = uf_theory(S)
    s_red, s_green = S.real('noise_red', pos=True), S.real('noise_green', pos=True)
    noise = {'green': s_green, 'red': s_red}
    data, dvals, labels = _channel_data(S, noise if where == 'data' else None)
    pr = Uniform(0.2, 1.0, name='r')
    kw = dict(noise_sd=noise) if where == 'model' else {}
    model = AlphaModel(Sphere(n=1.59, r=pr, center=(0.2, 0.4, 3.0)), alpha=1.0, theory=theory, **kw)
    vr = S.real('v_r', lo=0.2, hi=1.0)
    llike = model.lnlike({'r': vr}, data)
    S.observe('lnlike', llike)
    fwd = calc_holo(data, Sphere(n=1.59, r=vr, center=(0.2, 0.4, 3.0)), theory=theory, scaling=1.0)
    N = 4
    two_pi = 2 * S.pi if S.sym else 2 * np.pi
    res = 0
    sig = {'red': s_red, 'green': s_green}
    for ch in labels:
        f = _flatvals(fwd.sel(illumination=ch)).reshape(-1)
        d = dvals[0, :, labels.index(ch)]
        for j in range(2):
            res = res + ((f[j] - d[j]) / sig[ch]) ** 2
    ref = -N / 2 * np.log(two_pi) - N * (np.log(s_red) + np.log(s_green)) / 2 - 0.5 * res
    S.claim_eq('likelihood_is_gaussian_with_channel_noise', llike, ref)


@obligation('C12.per_channel_noise.data', functions=FUNCS, timeout_s=180, nvalid=2,
            stubs=['raw_fields := uninterpreted kernel'],
            bounds='2-channel data (1x2 pixels per channel) whose noise_sd is per-channel (unequal, symbolic): '
                   'Gaussian log-density with each residual divided by its channel noise and N*mean(log sigma)')
def per_channel_noise_data(S):
    _per_channel_body(S, 'data')


@obligation('C12.per_channel_noise.model', functions=FUNCS, timeout_s=180, nvalid=2,
            stubs=['raw_fields := uninterpreted kernel'],
            bounds='same, with the per-channel noise given to the model as a dictionary (overrides the data)')
def per_channel_noise_model(S):
    _per_channel_body(S, 'model')


@obligation('C12.constraint.three_spheres', functions=[MM + 'Model.lnprior', MM + 'Model._lnprior', MM + 'LimitOverlaps.check',
                                                       'holopy.scattering.scatterer.spherecluster.Spheres.largest_overlap',
                                                       MM + 'Model.scatterer_from_parameters'],
            max_paths=400, timeout_s=120, nvalid=2, stubs=['theory := counting stub (never called by lnprior)'],
            bounds='three spheres of radius 0.5 on a line at x = 0, 5 and a fitted position (Uniform(-2, 8)), '
                   'LimitOverlaps(0.1): lnprior is -inf exactly when the movable sphere overlaps EITHER fixed sphere '
                   '(first-third and second-third pairs) by more than 0.1, or leaves the prior support')
def constraint_three_spheres(S):
    setup(S)
    theory = make_stub_theory(S, log=[], tagger=_tag, by_position=True)
    px = Uniform(-2.0, 8.0, name='x3')
    spheres = Spheres([Sphere(n=1.59, r=0.5, center=(0.0, 0.0, 3.0)), Sphere(n=1.58, r=0.5, center=(5.0, 0.0, 3.0)),
                       Sphere(n=1.57, r=0.5, center=(px, 0.0, 3.0))], warn=False)
    model = AlphaModel(spheres, alpha=1.0, theory=theory, constraints=[LimitOverlaps(0.1)])
    S.claim('one_parameter', len(model.parameters) == 1)
    vx = S.real('v_x')
    S.observe('v_x', vx)
    lp = model.lnprior({list(model.parameters)[0]: vx})
    inside = ((vx >= -2.0) & (vx <= 8.0)) if S.sym else (-2.0 <= vx <= 8.0)
    ok0 = (1 - abs(vx) <= 0.1)
    ok1 = (1 - abs(vx - 5.0) <= 0.1)
    finite = (inside & ok0 & ok1) if S.sym else (inside and ok0 and ok1)
    S.claim_iff('minus_inf_iff_outside_or_any_pair_overlaps', _is_minf(lp),
                ~finite if S.sym and not isinstance(finite, bool) else (not finite))
    if not _is_minf(lp):
        S.claim_eq('prior_value', lp, _uniform_ln(-2.0, 8.0))


@obligation('C12.many_parameters', functions=['holopy.core.mapping.read_map', MM + 'Model.scatterer_from_parameters',
                                              MM + 'Model.lnprior'],
            timeout_s=120, nvalid=2, stubs=['theory := counting stub (never called)'],
            bounds='12 fitted parameters (four spheres with fitted x, y and r; indices 10 and 11 have two digits): every '
                   'value of a symbolic parameter vector reaches its own place and lnprior is the sum of the 12 '
                   'log-densities')
def many_parameters(S):
    setup(S)
    theory = make_stub_theory(S, log=[], tagger=_tag, by_position=True)
    pri = [[Uniform(0.0 + 10 * k, 1.0 + 10 * k), Uniform(0.0, 2.0), Uniform(0.1, 0.5)] for k in range(4)]
    from holopy.scattering.scatterer import Scatterers
    sc = Scatterers([Sphere(n=1.5 + 0.01 * k, r=pri[k][2], center=(pri[k][0], pri[k][1], 3.0)) for k in range(4)])
    model = AlphaModel(sc, alpha=1.0, theory=theory)
    S.claim('twelve_parameters', len(model.parameters) == 12)
    if len(model.parameters) != 12:
        return
    names = list(model.parameters)
    vals = [S.real(f'v{i}') for i in range(12)]
    for i, p in enumerate(model._parameters):
        S.assume(vals[i] >= p.lower_bound)
        S.assume(vals[i] <= p.upper_bound)
    S.observe('v11', vals[11])
    # x priors are distinguishable by their bounds; y and r priors by the order of appearance
    for tag, given in (('list', vals), ('by_name', dict(zip(names, vals)))):
        got = model.scatterer_from_parameters(given)
        seen_y = seen_r = 0
        for i, p in enumerate(model._parameters):
            if p.upper_bound - p.lower_bound == 1.0 and (p.lower_bound / 10) == int(p.lower_bound / 10) and \
                    (p.lower_bound, p.upper_bound) != (0.0, 2.0):
                k = int(p.lower_bound / 10)
                S.claim_eq(f'{tag}.x{k}', got.scatterers[k].center[0], vals[i])
            elif (p.lower_bound, p.upper_bound) == (0.0, 2.0):
                S.claim_eq(f'{tag}.y{seen_y}', got.scatterers[seen_y].center[1], vals[i])
                seen_y += 1
            else:
                S.claim_eq(f'{tag}.r{seen_r}', got.scatterers[seen_r].r, vals[i])
                seen_r += 1
        S.claim(f'{tag}.all_places_seen', seen_y == 4 and seen_r == 4)
    lp = model.lnprior(vals)
    ref = 4 * _uniform_ln(0.0, 1.0) + 4 * _uniform_ln(0.0, 2.0) + 4 * _uniform_ln(0.1, 0.5)
    # all twelve log-densities are concrete floats on this path: compare up to summation order
    S.claim('lnprior_sum', bool(abs(lp - ref) < 1e-9))
