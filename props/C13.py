"""C13 - fitting (narrow): what the Python layers around the optimiser guarantee.
The convergence behaviour of Levenberg-Marquardt (fixed point, monotone improvement, recovery,
repeatability) is 2300 lines of iterative float code and save/load goes through HDF5: both are
outside the reach of the solver and NOT claimed."""
import types

import numpy as np

from symx import core
from symx.harness import obligation
from symx.shim import shim_np, shim_np_both

LEVEL = 'model_checking'
ASSUMPTIONS = [
    "floats are modelled as reals",
    "the optimiser (nmpfit.mpfit / scipy.optimize.least_squares) is a nondeterministic stub: it evaluates the "
    "residual function once at the start vector and returns ANY vector inside the limits it was given (its "
    "documented contract); convergence behaviour, fixed point, monotone improvement, recovery and repeatability of "
    "Levenberg-Marquardt are NOT claimed",
    "save/load of results (HDF5 + YAML) is outside the claim",
]

import holopy.inference.nmpfit as nm_mod
import holopy.inference.scipyfit as sp_mod
import holopy.inference.result as res_mod
import holopy.inference.model as model_mod
import holopy.core.prior as prior_mod
import holopy.core.mapping as mapping_mod
import holopy.core.metadata as meta
from holopy.core.metadata import data_grid
from holopy.core.prior import Uniform, Gaussian, BoundedGaussian
from holopy.inference.model import AlphaModel
from holopy.inference.nmpfit import NmpfitStrategy
from holopy.inference.scipyfit import LeastSquaresScipyStrategy
from holopy.scattering.scatterer import Sphere

from props.C01 import make_stub_theory, setup as c01_setup, _flatvals
from props.C12 import _tag, _data, _is_minf, _gauss_ln, _uniform_ln

IN = 'holopy.inference.'
FUNCS = [IN + 'nmpfit.NmpfitStrategy.fit', IN + 'nmpfit.NmpfitStrategy.minimize',
         IN + 'nmpfit.NmpfitStrategy.calc_residuals', IN + 'nmpfit.NmpfitStrategy.unscale_pars_from_minimizer',
         IN + 'nmpfit.NmpfitStrategy.get_errors_from_minimizer', IN + 'nmpfit.NmpfitStrategy.cleanup_from_fit',
         IN + 'scipyfit.LeastSquaresScipyStrategy.fit', IN + 'scipyfit.LeastSquaresScipyStrategy.minimize',
         IN + 'result.FitResult.parameters', IN + 'result.FitResult.hologram', IN + 'result.FitResult.guess_hologram', IN + 'result.FitResult.max_lnprob',
         IN + 'result.FitResult.forward', 'holopy.core.prior.Prior.scale', 'holopy.core.prior.Prior.unscale']


def _setup(S, selection=None):
    c01_setup(S)
    if S.sym:
        for m in (nm_mod, sp_mod, res_mod, model_mod, prior_mod, mapping_mod):
            shim_np(S, m)
    if selection is not None:
        class _R:
            calls = []

            @staticmethod
            def choice(n, k, replace=True):
                _R.calls.append((n, k, replace))
                return np.array(selection[:k])

            @staticmethod
            def seed(s):
                pass
        shim_np_both(S, meta, {'random': _R})


def _model(S, theory):
    # r: two-sided bounds; z: lower bound only; x: Gaussian (unbounded); alpha: two-sided
    pr = Uniform(0.2, 1.0, guess=0.5, name='r')
    pz = Uniform(1.0, np.inf, guess=5.0, name='z')
    px = Gaussian(0.25, 0.5, name='x')
    # a coordinate left of the origin: bounded prior with a negative (symbolic) guess
    py = Uniform(-3.0, -1.0, guess=-2.0, name='y')
    model = AlphaModel(Sphere(n=1.59, r=pr, center=(px, py, pz)), alpha=1.0, theory=theory)
    return model, dict(r=pr, z=pz, x=px, y=py)


def _returned(S, parinfo_or_start, priors, names, limits):
    """the optimiser's answer: any scaled vector inside the limits it was given"""
    out = []
    for i, nm in enumerate(names):
        v = S.real(f'opt_{nm}')
        lo, hi = limits[i]
        if lo is not None:
            S.assume(v >= lo, 'optimiser contract: result >= lower limit')
        if hi is not None:
            S.assume(v <= hi, 'optimiser contract: result <= upper limit')
        out.append(v)
    return out


@obligation('C13.nmpfit', functions=FUNCS, max_paths=64, timeout_s=120, nvalid=2, cost=3,
            stubs=['nmpfit.mpfit := nondeterministic stub honouring its limits', 'raw_fields := arbitrary field per pixel'],
            bounds='AlphaModel with r ~ Uniform(0.2,1), y ~ Uniform(-3,-1) (negative guess), z ~ Uniform(1,inf), x ~ Gaussian; '
                   '1x2 symbolic data: start vector, limits, bounds of the result, names, best-fit '
                   'hologram and log-probability, residual vector, strategy reusable')
def nmpfit_ob(S):
    _setup(S)
    theory = make_stub_theory(S, tagger=_tag)
    model, pri = _model(S, theory)
    names = list(model._parameter_names)
    data, dvals, noise = _data(S, (1, 2))
    seen = {}

    def fake_mpfit(fcn, parinfo=None, **kw):
        seen['parinfo'] = parinfo
        seen['kw'] = kw
        start = [d['value'] for d in parinfo]
        status, resid = fcn(start)
        seen['resid_at_start'] = resid
        limits = [(d['limits'][0] if d['limited'][0] else None, d['limits'][1] if d['limited'][1] else None)
                  for d in parinfo]
        # mpfit's precondition: limits enclose the start value; if the caller violates it, the stub
        # gives the start vector back (mpfit itself quits with status 0) instead of assuming the impossible
        consistent = True
        for d, (lo, hi) in zip(parinfo, limits):
            if lo is not None and not bool(lo <= d['value']):
                consistent = False
            if hi is not None and not bool(d['value'] <= hi):
                consistent = False
        if not consistent:
            seen['precondition_violated'] = True
            params = list(start)
        else:
            params = _returned(S, parinfo, pri, names, limits)
        seen['opt'] = dict(zip(names, params))
        return types.SimpleNamespace(params=params, status=1, perror=None, niter=1)
    S.patch(nm_mod.nmpfit, 'mpfit', fake_mpfit, both=True)
    strat = NmpfitStrategy()
    result = strat.fit(model, data)
    pinfo = seen['parinfo']
    S.claim('one_entry_per_parameter', [d['parname'] for d in pinfo] == names)
    for d, nm in zip(pinfo, names):
        p = pri[nm]
        S.claim_eq(f'{nm}.start_is_guess', p.unscale(d['value']), p.guess)
        has_lo = hasattr(p, 'lower_bound') and not core._is_inf(p.lower_bound)
        has_hi = hasattr(p, 'upper_bound') and not core._is_inf(p.upper_bound)
        S.claim(f'{nm}.limited_flags', d['limited'] == [has_lo, has_hi])
        if has_lo:
            S.claim_eq(f'{nm}.lower_limit', p.unscale(d['limits'][0]), p.lower_bound)
        if has_hi:
            S.claim_eq(f'{nm}.upper_limit', p.unscale(d['limits'][1]), p.upper_bound)
        # the optimiser's contract needs lower limit <= start <= upper limit in ITS (scaled) units
        if has_lo:
            S.claim_le(f'{nm}.scaled_lower_limit_below_start', d['limits'][0], d['value'])
        if has_hi:
            S.claim_le(f'{nm}.scaled_start_below_upper_limit', d['value'], d['limits'][1])
    # the result
    S.claim('names_are_the_models', list(result.parameters.keys()) == names)
    vals = result._parameters
    S.observe('fitted', np.array(vals, dtype=object if S.sym else float))
    for nm, v in zip(names, vals):
        p = pri[nm]
        S.claim_eq(f'{nm}.reported_is_unscaled_optimum', v, p.unscale(seen['opt'][nm]))
        if hasattr(p, 'lower_bound') and not core._is_inf(p.lower_bound):
            S.claim_ge(f'{nm}.within_lower_bound', v, p.lower_bound)
        if hasattr(p, 'upper_bound') and not core._is_inf(p.upper_bound):
            S.claim_le(f'{nm}.within_upper_bound', v, p.upper_bound)
    fwd = model.forward(result.parameters, data)
    S.claim_eq('hologram_is_forward_model', _flatvals(result.hologram).reshape(-1), _flatvals(fwd).reshape(-1))
    S.claim_eq('guess_hologram_is_forward_model_at_guess', _flatvals(result.guess_hologram).reshape(-1),
               _flatvals(model.forward(model.initial_guess, data)).reshape(-1))
    S.claim_eq('hologram_unchanged_after_guess_hologram', _flatvals(result.hologram).reshape(-1),
               _flatvals(fwd).reshape(-1))
    lp = model.lnposterior(result.parameters, data)
    if _is_minf(lp) or _is_minf(result.max_lnprob):
        S.claim('max_lnprob_inf_agree', _is_minf(lp) and _is_minf(result.max_lnprob))
    else:
        S.claim_eq('max_lnprob_is_lnposterior', result.max_lnprob, lp)
    S.claim_eq('scatterer_uses_reported_values', result.scatterer.r, vals[names.index('r')])
    # residual vector at the start: data residuals (+) sqrt(lnp(guess) - lnp(guess)) = 0
    resid = seen['resid_at_start']
    guess = [pri[nm].guess for nm in names]
    f0 = _flatvals(model.forward(guess, data)).reshape(-1)
    S.claim('residual_length', len(resid) == 2 + len(names))
    for j in range(2):
        S.claim_eq(f'residual[{j}]', resid[j], (f0[j] - dvals.reshape(-1)[j]) / noise)
    for j in range(len(names)):
        S.claim_eq(f'prior_residual[{j}]', resid[2 + j], 0)
    # scratch state removed, objects reusable
    S.claim('strategy_scratch_removed', not any(hasattr(strat, a) for a in ('_model', '_parameters', '_data',
                                                                            '_guess_lnpriors')))
    S.claim('model_untouched', list(model._parameter_names) == names)
    again = strat.minimize(model._parameters, lambda pars: np.array([0.0]))
    S.claim_eq('strategy_reusable_same_reported_values', np.array(again[0], dtype=object if S.sym else float),
               np.array(vals, dtype=object if S.sym else float))
    S.claim_eq('data_untouched', data.values.reshape(-1), dvals.reshape(-1))


@obligation('C13.scipy_subset', functions=FUNCS, max_paths=64, timeout_s=120, nvalid=2, cost=3,
            stubs=['scipy.optimize.least_squares := nondeterministic stub', 'numpy.random.choice := prescribed selection',
                   'raw_fields := arbitrary field per pixel position'],
            bounds='LeastSquaresScipyStrategy(npixels=3) on a 2x2 crop (origin shifted) of symbolic data (selection [3,0,2]): start vector is the '
                   'scaled guess, reported values are the unscaled optimum, names, best-fit hologram on the ORIGINAL '
                   'grid equals the forward model, log-probability evaluated on the subset')
def scipy_subset(S):
    _setup(S, selection=[3, 0, 2])
    theory = make_stub_theory(S, tagger=_tag, by_position=True)
    pr = Uniform(0.2, 1.0, guess=S.real('guess_r', lo=0.2, hi=1.0), name='r')
    px = Gaussian(S.real('mu_x'), S.real('sd_x', pos=True), name='x')
    model = AlphaModel(Sphere(n=1.59, r=pr, center=(px, 0.4, 3.0)), alpha=1.0, theory=theory)
    pri = dict(r=pr, x=px)
    names = list(model._parameter_names)
    full, fvals, noise = _data(S, (3, 2))
    data = full.isel(x=slice(1, 3))          # a crop: the grid does not start at the origin
    dvals = fvals[1:3, :]
    seen = {}

    def fake_least_squares(fun, x0, **kw):
        seen['x0'] = list(x0)
        seen['kw'] = kw
        seen['resid'] = fun(list(x0))
        x = [S.real(f'opt_{nm}') for nm in names]
        return types.SimpleNamespace(x=x, success=True, jac=np.eye(len(names)), status=1)
    S.patch(sp_mod, 'least_squares', fake_least_squares, both=True)
    strat = LeastSquaresScipyStrategy(npixels=3)
    S.assume(pri['r'].unscale(S.real('opt_r')) >= 0, 'returned radius is a valid scatterer')
    result = strat.fit(model, data)
    for nm, x0 in zip(names, seen['x0']):
        S.claim_eq(f'{nm}.start_is_guess', pri[nm].unscale(x0), pri[nm].guess)
    S.claim('names_are_the_models', list(result.parameters.keys()) == names)
    vals = result._parameters
    S.observe('fitted', np.array(vals, dtype=object if S.sym else float))
    for nm, v in zip(names, vals):
        S.claim_eq(f'{nm}.reported_is_unscaled_optimum', v, pri[nm].unscale(S.real(f'opt_{nm}')))
    S.claim('fitted_on_subset', result.data.sizes.get('flat') == 3)
    # the guess hologram is read first (history: the two cached holograms must not share a slot)
    guess_holo = result.guess_hologram
    guess_full = model.forward(model.initial_guess, data)
    S.claim_eq('guess_hologram_is_forward_model_at_guess', _flatvals(guess_holo).reshape(-1),
               _flatvals(guess_full).reshape(-1))
    # best-fit hologram lives on the original grid
    holo = result.hologram
    full = model.forward(result.parameters, data)
    S.claim_eq('guess_hologram_unchanged_after_hologram', _flatvals(result.guess_hologram).reshape(-1),
               _flatvals(guess_full).reshape(-1))
    S.claim('hologram_on_original_grid', holo.sizes.get('x') == 2 and holo.sizes.get('y') == 2 and
            bool(np.allclose(holo.x.values, data.x.values)) and bool(np.allclose(holo.y.values, data.y.values)))
    S.claim_eq('hologram_is_forward_model', _flatvals(holo).reshape(-1), _flatvals(full).reshape(-1))
    # residuals at the start are those of the selected pixels
    g = [pri[nm].guess for nm in names]
    f0 = _flatvals(model.forward(g, data)).reshape(-1)
    resid = np.asarray(seen['resid']).reshape(-1)
    sel = [3, 0, 2]
    for j, i in enumerate(sel):
        S.claim_eq(f'residual[{j}]', resid[j], (f0[i] - dvals.reshape(-1)[i]) / noise)


@obligation('C13.scipy_bounds', functions=FUNCS, max_paths=16, timeout_s=60, nvalid=2,
            stubs=['scipy.optimize.least_squares := nondeterministic stub (it is given no limits)',
                   'raw_fields := arbitrary field per pixel'],
            bounds='LeastSquaresScipyStrategy, one parameter r ~ Uniform(0.2, 1), 1x1 symbolic data: the reported '
                   'parameter lies within its prior\'s bounds')
def scipy_bounds(S):
    _setup(S)
    theory = make_stub_theory(S, tagger=_tag)
    pr = Uniform(0.2, 1.0, guess=0.5, name='r')
    model = AlphaModel(Sphere(n=1.59, r=pr, center=(0.1, 0.4, 3.0)), alpha=1.0, theory=theory)
    data, dvals, noise = _data(S, (1, 1))
    seen = {}

    def fake_least_squares(fun, x0, **kw):
        seen['kw'] = kw
        return types.SimpleNamespace(x=[S.real('opt_r', lo=0.05, hi=3.0)], success=True, jac=np.eye(1), status=1)
    S.patch(sp_mod, 'least_squares', fake_least_squares, both=True)
    result = LeastSquaresScipyStrategy().fit(model, data)
    r_val = result._parameters[0]
    S.observe('r', r_val)
    # nothing in the Python layer enforces this: the optimiser is given no limits and the prior residual is
    # discarded (np.append result unused) - see known_findings.json
    S.claim('limits_or_bounds_handed_to_optimiser', 'bounds' in seen['kw'])
    S.claim_ge('r.within_prior_bounds.lower', r_val, 0.2)
    S.claim_le('r.within_prior_bounds.upper', r_val, 1.0)
