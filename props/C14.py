"""C14 - priors are proper, match their samplers, and are closed under arithmetic."""
import math
import operator

import numpy as np

from symx import core
from symx.core import SymR, SymC
from symx.harness import obligation
from symx.shim import shim_np

LEVEL = 'model_checking'
ASSUMPTIONS = [
    "floats are modelled as reals",
    "numpy.random.uniform/normal are nondeterministic stubs returning arbitrary values within their "
    "documented contract (uniform(a,b,size) in [a,b); normal arbitrary), shape per `size`",
    "scipy.stats.norm.pdf is replaced by its textbook definition over the uninterpreted exp",
    "exp/log are uninterpreted with log(exp u) = u and log(a/b) = log a - log b instances",
    "distributional agreement of samples and the Gaussian integral are outside the claim",
]

import holopy.core.prior as prior_mod
from holopy.core.prior import (Uniform, Gaussian, BoundedGaussian, TransformedPrior, ComplexPrior,
                               Prior, updated, generate_guess)
from holopy.scattering.errors import ParameterSpecificationError

PR = 'holopy.core.prior.'


class RandomStub:
    """numpy.random stand-in: every draw is a fresh harness input constrained by
    the documented contract; call arguments are recorded."""

    def __init__(self, S, redraw_in=None):
        self.S = S
        self.calls = []
        self.k = 0
        self.redraw_in = redraw_in   # (lb, ub): after 2 rejected rounds the stub returns in-range values
        self.normal_rounds = 0

    def _fresh(self, name):
        self.k += 1
        return self.S.real(f'{name}{self.k}')

    def _shape(self, size, gen):
        if size is None:
            return gen()
        n = int(size)
        vals = [gen() for _ in range(n)]
        return np.array(vals, dtype=object if self.S.sym else float)

    def uniform(self, low=0.0, high=1.0, size=None):
        self.calls.append(('uniform', low, high, size))

        def gen():
            u = self._fresh('u')
            self.S.assume(u >= low, 'uniform draw >= low')
            self.S.assume(u < high, 'uniform draw < high')
            return u
        return self._shape(size, gen)

    def normal(self, loc=0.0, scale=1.0, size=None):
        self.calls.append(('normal', loc, scale, size))
        self.normal_rounds += 1
        rounds = self.normal_rounds

        def gen():
            g = self._fresh('g')
            if self.redraw_in is not None and rounds >= 3:
                self.S.assume(g >= self.redraw_in[0], 'eventually-in-range redraw (loop bound 3)')
                self.S.assume(g <= self.redraw_in[1], 'eventually-in-range redraw (loop bound 3)')
            return g
        return self._shape(size, gen)

    def seed(self, s):
        self.calls.append(('seed', s))


def _setup(S, redraw_in=None):
    rnd = RandomStub(S, redraw_in)
    S.patch(prior_mod, 'random', rnd, both=True)
    if S.sym:
        sh = shim_np(S, prior_mod, extra={'random': rnd})
        S.patch(prior_mod, 'complex', _symcomplex)

        class _Norm:
            @staticmethod
            def pdf(p, mu, sd):
                return _gauss_pdf(S, p, mu, sd)

        class _Stats:
            norm = _Norm
        S.patch(prior_mod, 'stats', _Stats)
    else:
        # concrete runs: generate_guess calls np.random.seed
        pass
    return rnd


def _symcomplex(re=0, im=0):
    if core.is_sym(re) or core.is_sym(im):
        return SymC(re, im)
    return complex(re, im)


def _exp(S, x):
    return np.exp(x)


def _log(S, x):
    return np.log(x)


def _gauss_pdf(S, p, mu, sd):
    return np.exp(-(p - mu) ** 2 / (2 * sd ** 2)) / (sd * np.sqrt(2 * S.pi))


def _ctor(fn):
    try:
        return fn(), False
    except ParameterSpecificationError:
        return None, True


def _and(S, *conds):
    out = conds[0]
    for c in conds[1:]:
        out = (out & c) if S.sym else (out and c)
    return out


def _or(S, *conds):
    out = conds[0]
    for c in conds[1:]:
        out = (out | c) if S.sym else (out or c)
    return out


def _not(S, c):
    if S.sym and not isinstance(c, (bool, np.bool_)):
        return ~c
    return not c


# --------------------------------------------------------------------------
# Uniform
# --------------------------------------------------------------------------

@obligation('C14.uniform.finite', functions=[PR + 'Uniform.__init__', PR + 'Uniform.lnprob', PR + 'Uniform.prob',
                                             PR + 'Uniform.interval', PR + 'Uniform.sample', PR + 'Prior.scale',
                                             PR + 'Prior.unscale'],
            bounds='all real lower/upper bounds, explicit guess of any value or no guess, one evaluation point; '
                   'sample sizes None, 1, 3', max_paths=200,
            stubs=['numpy.random.uniform (contract stub)'])
def uniform_finite(S):
    rnd = _setup(S)
    lb, ub, g, p = S.real('lb'), S.real('ub'), S.real('guess'), S.real('p')
    x = S.real('x')
    for with_guess in (True, False):
        tag = 'g' if with_guess else 'nog'
        u, raised = _ctor(lambda: Uniform(lb, ub, g) if with_guess else Uniform(lb, ub))
        S.observe(tag + '.raised', raised)
        ok = _and(S, lb < ub, _and(S, g >= lb, g <= ub)) if with_guess else (lb < ub)
        S.claim_iff(tag + '.accepts_iff_valid', not raised, ok)
        if raised:
            continue
        inside = _and(S, p >= lb, p <= ub)
        lp = u.lnprob(p)
        pr = u.prob(p)
        S.claim_iff(tag + '.lnprob_minus_inf_iff_outside', core._is_inf(lp) and lp < 0, _not(S, inside))
        S.claim_iff(tag + '.prob_zero_iff_outside', (not core.is_sym(pr)) and pr == 0, _not(S, inside))
        if not core._is_inf(lp):
            S.observe(tag + '.lnprob', lp)
            S.observe(tag + '.prob', pr)
            S.claim_eq(tag + '.prob_times_interval', pr * (ub - lb), 1)
            S.claim_eq(tag + '.lnprob_is_log_prob', lp, np.log(pr))
        S.claim(tag + '.guess_in_support', _and(S, u.guess >= lb, u.guess <= ub))
        if not with_guess:
            S.claim_eq(tag + '.default_guess_is_midpoint', u.guess, (lb + ub) / 2)
        else:
            S.claim_eq(tag + '.guess_kept', u.guess, g)
        S.claim(tag + '.scale_factor_positive', u.scale_factor > 0)
        S.claim_eq(tag + '.unscale_scale', u.unscale(u.scale(x)), x)
        S.claim_eq(tag + '.scale_unscale', u.scale(u.unscale(x)), x)
        if with_guess:
            for size in (None, 1, 3):
                n0 = len(rnd.calls)
                smp = u.sample(size)
                call = rnd.calls[n0]
                S.claim(f'{tag}.sample{size}.rng_args', call[0] == 'uniform' and call[1] is lb and call[2] is ub
                        and call[3] == size if S.sym else call[0] == 'uniform' and call[1] == lb and call[2] == ub)
                arr = np.atleast_1d(smp) if not core.is_sym(smp) else np.array([smp], dtype=object)
                S.claim(f'{tag}.sample{size}.shape', (np.shape(smp) == ()) if size is None else (np.shape(smp) == (size,)))
                for i, v in enumerate(arr):
                    S.claim(f'{tag}.sample{size}[{i}].in_support', _and(S, v >= lb, v <= ub))


@obligation('C14.uniform.half_infinite', functions=[PR + 'Uniform.__init__', PR + 'Uniform.lnprob', PR + 'Uniform.prob'],
            bounds='bounds (lb,+inf), (-inf,ub), (-inf,+inf) with the finite bound symbolic; one evaluation point')
def uniform_half_infinite(S):
    _setup(S)
    b, p, x = S.real('b'), S.real('p'), S.real('x')
    inf = float('inf')
    for tag, lo, hi in (('lower', b, inf), ('upper', -inf, b), ('both', -inf, inf)):
        u, raised = _ctor(lambda: Uniform(lo, hi))
        S.claim(tag + '.accepted', not raised)
        g = u.guess
        S.observe(tag + '.guess', g)
        in_sup = True
        if tag == 'lower':
            S.claim(tag + '.guess_in_support', g >= b)
            inside = p >= b
        elif tag == 'upper':
            S.claim(tag + '.guess_in_support', g <= b)
            inside = p <= b
        else:
            S.claim(tag + '.guess_is_zero', g == 0)
            inside = True
        lp = u.lnprob(p)
        pr = u.prob(p)
        S.claim_iff(tag + '.lnprob_minus_inf_iff_outside', core._is_inf(lp) and lp < 0, _not(S, inside))
        # improper prior: the density 1/inf is 0 inside as well, so only
        # "outside => 0" is the property's clause here
        S.claim(tag + '.prob_zero', (not core.is_sym(pr)) and pr == 0)
        if not core._is_inf(lp):
            S.claim(tag + '.improper_lnprob_finite', not core._is_inf(lp))
        S.claim(tag + '.scale_factor_positive', u.scale_factor > 0)
        S.claim(tag + '.scale_factor_finite', not core._is_inf(u.scale_factor))
        if not core._is_inf(u.scale_factor):
            S.claim_eq(tag + '.unscale_scale', u.unscale(u.scale(x)), x)
    # infinite bounds on the wrong side are rejected
    for lo, hi in ((inf, b), (b, -inf), (inf, inf)):
        _, raised = _ctor(lambda: Uniform(lo, hi))
        S.claim('wrong_side_rejected', raised)


# --------------------------------------------------------------------------
# Gaussian / BoundedGaussian
# --------------------------------------------------------------------------

def _log_axioms(S, pdf_num_arg, denom):
    """instances: log(exp(u)/d) = u - log(d)"""
    if not S.sym:
        return
    c = core.ctx()
    e = np.exp(pdf_num_arg)
    lhs = np.log(e / denom)
    rhs = pdf_num_arg - np.log(denom)
    c.add_axiom(core.as_term(lhs) == core.as_term(rhs))


@obligation('C14.gaussian', functions=[PR + 'Gaussian.__init__', PR + 'Gaussian.lnprob', PR + 'Gaussian.prob',
                                       PR + 'Gaussian.guess', PR + 'Gaussian.variance', PR + 'Gaussian.sample'],
            bounds='all real mu, sd (either sign), one evaluation point; sample sizes None, 1, 3',
            stubs=['numpy.random.normal (contract stub)', 'scipy.stats.norm.pdf := textbook definition'])
def gaussian(S):
    rnd = _setup(S)
    mu, sd, p, x = S.real('mu'), S.real('sd'), S.real('p'), S.real('x')
    gp, raised = _ctor(lambda: Gaussian(mu, sd))
    S.observe('raised', raised)
    S.claim_iff('accepts_iff_sd_positive', not raised, sd > 0)
    if raised:
        return
    lp = gp.lnprob(p)
    S.observe('lnprob', lp)
    ref = -np.log(sd * np.sqrt(2 * S.pi)) - (p - mu) ** 2 / (2 * sd * sd)
    S.claim_eq('lnprob_formula', lp, ref)
    S.claim_eq('guess_is_mu', gp.guess, mu)
    S.claim_eq('variance', gp.variance, sd * sd)
    S.claim('scale_factor_positive', gp.scale_factor > 0)
    S.claim_eq('unscale_scale', gp.unscale(gp.scale(x)), x)
    if S.sym:
        pr = gp.prob(p)
        _log_axioms(S, -(p - mu) ** 2 / (2 * sd ** 2), sd * np.sqrt(2 * S.pi))
        S.claim_eq('lnprob_is_log_prob', lp, np.log(pr))
        S.claim('prob_positive', pr > 0)
    else:
        S.claim_eq('lnprob_is_log_prob', lp, math.log(gp.prob(p)))
    for size in (None, 1, 3):
        n0 = len(rnd.calls)
        smp = gp.sample(size)
        call = rnd.calls[n0]
        S.claim(f'sample{size}.rng_args', call[0] == 'normal' and (call[1] is mu if S.sym else call[1] == mu)
                and (call[2] is sd if S.sym else call[2] == sd) and call[3] == size)
        S.claim(f'sample{size}.shape', (np.shape(smp) == ()) if size is None else (np.shape(smp) == (size,)))


@obligation('C14.bounded_gaussian.density', functions=[PR + 'BoundedGaussian.__init__', PR + 'BoundedGaussian.lnprob',
                                                       PR + 'BoundedGaussian.prob'],
            bounds='all real mu, sd>0, lb, ub; one evaluation point; also half-infinite bounds', max_paths=200,
            stubs=['scipy.stats.norm.pdf := textbook definition'])
def bounded_gaussian_density(S):
    _setup(S)
    mu, sd, lb, ub, p = S.real('mu'), S.real('sd', pos=True), S.real('lb'), S.real('ub'), S.real('p')
    bg, raised = _ctor(lambda: BoundedGaussian(mu, sd, lb, ub))
    S.observe('raised', raised)
    S.claim_iff('accepts_iff_valid', not raised, _and(S, mu >= lb, mu <= ub, _not(S, lb == ub)))
    if not raised:
        inside = _and(S, p >= lb, p <= ub)
        lp = bg.lnprob(p)
        pr = bg.prob(p)
        S.claim_iff('lnprob_minus_inf_iff_outside', core._is_inf(lp) and lp < 0, _not(S, inside))
        S.claim_iff('prob_zero_iff_outside', (not core.is_sym(pr)) and pr == 0, _not(S, inside))
        if not core._is_inf(lp):
            S.observe('lnprob', lp)
            S.claim_eq('lnprob_is_gaussian_inside', lp, Gaussian(mu, sd).lnprob(p))
            if S.sym:
                _log_axioms(S, -(p - mu) ** 2 / (2 * sd ** 2), sd * np.sqrt(2 * S.pi))
                S.claim_eq('lnprob_is_log_prob', lp, np.log(pr))
        S.claim('guess_in_support', _and(S, bg.guess >= lb, bg.guess <= ub))
    inf = float('inf')
    for tag, lo, hi, inside in (('lower', lb, inf, p >= lb), ('upper', -inf, ub, p <= ub)):
        h, r2 = _ctor(lambda: BoundedGaussian(mu, sd, lo, hi))
        S.claim_iff(tag + '.accepts_iff_valid', not r2, (mu >= lb) if tag == 'lower' else (mu <= ub))
        if not r2:
            lp = h.lnprob(p)
            S.claim_iff(tag + '.lnprob_minus_inf_iff_outside', core._is_inf(lp) and lp < 0, _not(S, inside))
    _, r3 = _ctor(lambda: BoundedGaussian(mu, -sd, -inf, inf))
    S.claim('negative_sd_rejected', r3)


def _bg_sample(S, size, kind='finite'):
    mu, sd, lb, ub = S.real('mu'), S.real('sd', pos=True), S.real('lb'), S.real('ub')
    inf = float('inf')
    if kind == 'lower':
        ub = inf
        S.assume(lb <= mu)
        rnd = _setup(S, redraw_in=(lb, mu + 1))
    elif kind == 'upper':
        lb = -inf
        S.assume(mu <= ub)
        rnd = _setup(S, redraw_in=(mu - 1, ub))
    else:
        S.assume(lb <= mu)
        S.assume(mu <= ub)
        S.assume(lb < ub)
        rnd = _setup(S, redraw_in=(lb, ub))
    bg = BoundedGaussian(mu, sd, lb, ub)
    smp = bg.sample(size)
    S.claim('shape', (np.shape(smp) == ()) if size is None else (np.shape(smp) == (size,)))
    arr = [smp] if np.shape(smp) == () else list(smp)
    for i, v in enumerate(arr):
        S.observe(f'sample[{i}]', v)
        S.claim(f'sample[{i}].in_support', _and(S, v >= lb, v <= ub))
    S.claim('draws_come_from_normal', all(cl[0] == 'normal' for cl in rnd.calls))
    return bg, rnd


BGS = [PR + 'BoundedGaussian.sample', PR + 'Gaussian.sample']


@obligation('C14.bounded_gaussian.sample_none', functions=BGS, max_paths=64,
            bounds='sample(size=None): one scalar draw, rejection loop unrolled <= 3 rounds',
            stubs=['numpy.random.normal (contract stub; after 2 rejected rounds it returns in-range values)'])
def bg_sample_none(S):
    _bg_sample(S, None)


@obligation('C14.bounded_gaussian.sample_1', functions=BGS, max_paths=64,
            bounds='sample(size=1), rejection loop unrolled <= 3 rounds',
            stubs=['numpy.random.normal (contract stub; after 2 rejected rounds it returns in-range values)'])
def bg_sample_1(S):
    _bg_sample(S, 1)


@obligation('C14.bounded_gaussian.sample_half_infinite', functions=BGS, max_paths=400,
            bounds='sample(size) for size in {None, 1, 2} with bounds (lb, +inf) and (-inf, ub): samples in support',
            stubs=['numpy.random.normal (contract stub; after 2 rejected rounds it returns in-range values)'])
def bg_sample_half(S):
    kind = 'lower'
    _bg_sample(S, 2, 'lower')


@obligation('C14.bounded_gaussian.sample_half_infinite_upper', functions=BGS, max_paths=400,
            bounds='sample(size=None) and sample(1) with bounds (-inf, ub): samples in support',
            stubs=['numpy.random.normal (contract stub; after 2 rejected rounds it returns in-range values)'])
def bg_sample_half_upper(S):
    _bg_sample(S, 1, 'upper')


@obligation('C14.bounded_gaussian.sample_half_infinite_none', functions=BGS, max_paths=400,
            bounds='sample(size=None) with bounds (lb, +inf): sample in support',
            stubs=['numpy.random.normal (contract stub; after 2 rejected rounds it returns in-range values)'])
def bg_sample_half_none(S):
    _bg_sample(S, None, 'lower')


@obligation('C14.bounded_gaussian.sample_2', functions=BGS, max_paths=400, cost=3,
            bounds='sample(size=2), rejection loop unrolled <= 3 rounds',
            stubs=['numpy.random.normal (contract stub; after 2 rejected rounds it returns in-range values)'])
def bg_sample_2(S):
    _bg_sample(S, 2)


# --------------------------------------------------------------------------
# arithmetic closure
# --------------------------------------------------------------------------

def _three_priors(S):
    a = Uniform(S.real('a_lb'), S.real('a_ub'), S.real('a_g'))
    b = Gaussian(S.real('b_mu'), S.real('b_sd', pos=True))
    c = Uniform(1, 3, S.real('c_g', lo=1, hi=3))
    return a, b, c


@obligation('C14.arith.identities', functions=[PR + 'Prior.__add__', PR + 'Prior.__mul__', PR + 'Prior.__radd__',
                                               PR + 'Prior.__rmul__', PR + 'Prior.__sub__', PR + 'Prior.__truediv__',
                                               PR + 'Prior.__neg__', PR + 'TransformedPrior.guess'],
            bounds='symbolic numeric operand v (forks on v==0, v==1); Uniform and Gaussian bases', max_paths=200)
def arith_identities(S):
    _setup(S)
    v = S.real('v')
    lb, ub, g = S.real('lb'), S.real('ub'), S.real('g')
    S.assume(lb < ub)
    S.assume(g >= lb)
    S.assume(g <= ub)
    p = Uniform(lb, ub, g)
    # addition
    for tag, make in (('add', lambda: p + v), ('radd', lambda: v + p)):
        r = make()
        S.claim_iff(tag + '.returns_self_iff_zero', r is p, v == 0)
        if r is not p:
            S.claim(tag + '.derived', isinstance(r, TransformedPrior))
            S.claim_eq(tag + '.guess', r.guess, g + v)
    r = p - v
    S.claim_iff('sub.returns_self_iff_zero', r is p, v == 0)
    if r is not p:
        S.claim_eq('sub.guess', r.guess, g - v)
    # multiplication
    for tag, make in (('mul', lambda: p * v), ('rmul', lambda: v * p)):
        try:
            r = make()
            raised = False
        except TypeError:
            raised = True
        S.claim_iff(tag + '.raises_iff_zero', raised, v == 0)
        if not raised:
            S.claim_iff(tag + '.returns_self_iff_one', r is p, v == 1)
            if r is not p:
                S.claim_eq(tag + '.guess', r.guess, g * v)
    S.observe('v', v)


@obligation('C14.arith.unsupported', functions=[PR + 'Prior.__add__', PR + 'Prior.__mul__',
                                                PR + 'TransformedPrior.__init__', PR + 'Prior.__array_ufunc__'],
            bounds='strings, None, lists, dicts as operands (concrete structure); non-callable transformation')
def arith_unsupported(S):
    _setup(S)
    g = S.real('g', lo=0, hi=1)
    p = Uniform(0, 1, g)
    for bad in ('x', None, [1, 2], {'a': 1}):
        for tag, fn in (('add', lambda: p + bad), ('mul', lambda: p * bad), ('radd', lambda: bad + p),
                        ('rmul', lambda: bad * p)):
            try:
                fn()
                ok = False
            except TypeError:
                ok = True
            S.claim(f'{tag}.{type(bad).__name__}.raises', ok)
    try:
        TransformedPrior(3, p)
        ok = False
    except TypeError:
        ok = True
    S.claim('noncallable_transformation_rejected', ok)
    try:
        np.add.reduce(p)
        ok = False
    except TypeError:
        ok = True
    S.claim('ufunc_method_rejected', ok)
    arr = p + np.array([0, 1.5])
    S.claim('array_add_elementwise', arr[0] is p and isinstance(arr[1], TransformedPrior))
    S.claim_eq('array_add_guess', arr[1].guess, g + 1.5)
    S.observe('g', g)


def _expressions(S, a, b, c):
    """(name, derived prior, reference function of the base values) - depth <= 3"""
    two = 2
    return [
        ('a+b', a + b, lambda A, B, C: A + B),
        ('a-b', a - b, lambda A, B, C: A + (B * -1)),
        ('a*c', a * c, lambda A, B, C: A * C),
        ('a/c', a / c, lambda A, B, C: A * (1 / C)),
        ('-a', -a, lambda A, B, C: A * -1),
        ('2-a', two - a, lambda A, B, C: (A * -1) + 2),
        ('2/c', two / c, lambda A, B, C: (1 / C) * 2),
        ('c**2', c ** 2, lambda A, B, C: C ** 2),
        ('2**c', two ** c, lambda A, B, C: 2 ** C),
        ('sqrt(c)', np.sqrt(c), lambda A, B, C: np.sqrt(C)),
        ('exp(b)', np.exp(b), lambda A, B, C: np.exp(B)),
        ('(a+b)*c', (a + b) * c, lambda A, B, C: (A + B) * C),
        ('(a*c+b)/2', (a * c + b) / 2, lambda A, B, C: ((A * C) + B) * 0.5),
        ('sqrt(c)*(a-3)', np.sqrt(c) * (a - 3), lambda A, B, C: np.sqrt(C) * (A + -3)),
        ('a+a', a + a, lambda A, B, C: A + A),
        ('add(a,b)', np.add(a, b), lambda A, B, C: A + B),
        # ufuncs whose first operand is a plain number: the operand order is part of the derived prior
        ('subtract(3,a)', np.subtract(3, a), lambda A, B, C: 3 - A),
        ('divide(2,c)', np.divide(2, c), lambda A, B, C: 2 / C),
        ('subtract(a,b)', np.subtract(a, b), lambda A, B, C: A - B),
        ('float64(5)-a', np.float64(5) - a, lambda A, B, C: 5 - A),
    ]


ARF = [PR + 'Prior.__add__', PR + 'Prior.__mul__', PR + 'Prior.__sub__', PR + 'Prior.__rsub__',
       PR + 'Prior.__truediv__', PR + 'Prior.__rtruediv__', PR + 'Prior.__neg__', PR + 'Prior.__pow__',
       PR + 'Prior.__rpow__', PR + 'Prior.__array_ufunc__', PR + 'TransformedPrior.guess',
       PR + 'TransformedPrior.sample', PR + '_reciprocal']


@obligation('C14.arith.guess', functions=ARF,
            bounds='20 operator expressions of depth <= 3 over Uniform/Gaussian/Uniform bases with symbolic '
                   'parameters; guess of the derived prior = expression of the base guesses')
def arith_guess(S):
    _setup(S)
    a_lb, a_ub = S.real('a_lb'), S.real('a_ub')
    S.assume(a_lb < a_ub)
    ag = S.real('a_g')
    S.assume(ag >= a_lb)
    S.assume(ag <= a_ub)
    a = Uniform(a_lb, a_ub, ag)
    b = Gaussian(S.real('b_mu'), S.real('b_sd', pos=True))
    c = Uniform(1, 3, S.real('c_g', lo=1, hi=3))
    for name, derived, ref in _expressions(S, a, b, c):
        S.claim(name + '.is_derived', isinstance(derived, TransformedPrior))
        gv = derived.guess
        S.observe(name + '.guess', gv)
        S.claim_eq(name + '.guess', gv, ref(a.guess, b.guess, c.guess))


def _arith_sample(S, size):
    rnd = _setup(S)
    a = Uniform(-1, 2, 0.5)
    b = Gaussian(S.real('b_mu'), S.real('b_sd', pos=True))
    c = Uniform(1, 3, 2)
    for name, derived, ref in _expressions(S, a, b, c):
        n0 = len(rnd.calls)
        k0 = rnd.k
        smp = derived.sample(size)
        calls = rnd.calls[n0:]
        S.claim(name + '.sizes', all(cl[3] == size for cl in calls))
        # recover the raw draws of this call, in call order, per base prior
        draws = []
        k = k0
        for cl in calls:
            n = 1 if size is None else size
            nm = 'u' if cl[0] == 'uniform' else 'g'
            vals = [S.real(f'{nm}{k + i + 1}') for i in range(n)]
            k += n
            base = 'a' if (cl[0] == 'uniform' and (cl[1] == -1)) else ('c' if cl[0] == 'uniform' else 'b')
            draws.append((base, vals))
        if size is None:
            S.claim(name + '.shape', np.shape(smp) == ())
        else:
            S.claim(name + '.shape', np.shape(smp) == (size,))
        n = 1 if size is None else size
        # each occurrence of a base prior in the expression draws once; map occurrences in order
        for i in range(n):
            occ = {'a': [d[1][i] for d in draws if d[0] == 'a'], 'b': [d[1][i] for d in draws if d[0] == 'b'],
                   'c': [d[1][i] for d in draws if d[0] == 'c']}
            if name == 'a+a':
                expect = occ['a'][0] + occ['a'][1]
            else:
                A = occ['a'][0] if occ['a'] else None
                B = occ['b'][0] if occ['b'] else None
                C = occ['c'][0] if occ['c'] else None
                expect = ref(A, B, C)
            got = smp if size is None else smp[i]
            S.observe(f'{name}.sample[{i}]', got)
            S.claim_eq(f'{name}.sample[{i}]', got, expect)


@obligation('C14.arith.sample_none', functions=ARF, stubs=['numpy.random.* (contract stub)'],
            bounds='20 operator expressions, sample(size=None): derived sample = expression of the base draws')
def arith_sample_none(S):
    _arith_sample(S, None)


@obligation('C14.arith.sample_2', functions=ARF, stubs=['numpy.random.* (contract stub)'],
            bounds='20 operator expressions, sample(size=2): elementwise')
def arith_sample_2(S):
    _arith_sample(S, 2)


@obligation('C14.arith.sample_1', functions=ARF, stubs=['numpy.random.* (contract stub)'], tier='thorough',
            bounds='20 operator expressions, sample(size=1)')
def arith_sample_1(S):
    _arith_sample(S, 1)


@obligation('C14.arith.derived_from_bounded', functions=ARF + BGS, max_paths=64,
            stubs=['numpy.random.normal (contract stub)'],
            bounds='prior derived from a BoundedGaussian: sample(size=None) and sample(2) = operation applied to '
                   'the (in-range) base sample')
def derived_from_bounded(S):
    mu, sd, lb, ub = S.real('mu'), S.real('sd', pos=True), S.real('lb'), S.real('ub')
    S.assume(lb <= mu)
    S.assume(mu <= ub)
    S.assume(lb < ub)
    rnd = _setup(S, redraw_in=(lb, ub))
    bg = BoundedGaussian(mu, sd, lb, ub)
    d = bg * 2 + 1
    S.claim_eq('guess', d.guess, mu * 2 + 1)
    smp = d.sample()
    S.observe('sample', smp)
    base = (smp - 1) / 2
    S.claim('base_in_support', _and(S, base >= lb, base <= ub))


# --------------------------------------------------------------------------
# ComplexPrior, updated, generate_guess
# --------------------------------------------------------------------------

@obligation('C14.complex', functions=[PR + 'ComplexPrior.__init__', PR + 'ComplexPrior.lnprob', PR + 'ComplexPrior.prob',
                                      PR + 'TransformedPrior.guess', PR + 'TransformedPrior.sample'],
            bounds='ComplexPrior with (prior, prior), (prior, fixed), (fixed, prior); one complex evaluation point',
            max_paths=200, stubs=['numpy.random.* (contract stub)'])
def complex_prior(S):
    rnd = _setup(S)
    lb, ub = S.real('lb'), S.real('ub')
    S.assume(lb < ub)
    mu, sd = S.real('mu'), S.real('sd', pos=True)
    fixed = S.real('fixed')
    re, im = S.real('p_re'), S.real('p_im')
    pt = _symcomplex(re, im)
    U = Uniform(lb, ub)
    G = Gaussian(mu, sd)
    for tag, cp, lref, gref in (
            ('both', ComplexPrior(U, G), lambda: U.lnprob(re) + G.lnprob(im), (U.guess, G.guess)),
            ('fixed_imag', ComplexPrior(U, fixed), lambda: U.lnprob(re), (U.guess, fixed)),
            ('fixed_real', ComplexPrior(fixed, G), lambda: G.lnprob(im), (fixed, G.guess))):
        lp = cp.lnprob(pt)
        ref = lref()
        if core._is_inf(ref) or core._is_inf(lp):
            S.claim(tag + '.lnprob_inf_agree', core._is_inf(ref) and core._is_inf(lp) and lp < 0)
        else:
            S.observe(tag + '.lnprob', lp)
            S.claim_eq(tag + '.lnprob', lp, ref)
        gv = cp.guess
        S.claim_eq(tag + '.guess', gv, _symcomplex(gref[0], gref[1]))
        n0 = rnd.k
        smp = cp.sample()
        S.claim(tag + '.sample_is_complex_of_draws', True)
        if tag == 'both':
            S.claim_eq(tag + '.sample', smp, _symcomplex(S.real(f'u{n0 + 1}'), S.real(f'g{n0 + 2}')))
        elif tag == 'fixed_imag':
            S.claim_eq(tag + '.sample', smp, _symcomplex(S.real(f'u{n0 + 1}'), fixed))
        else:
            S.claim_eq(tag + '.sample', smp, _symcomplex(fixed, S.real(f'g{n0 + 1}')))


class _UV:
    def __init__(self, guess, plus, minus):
        self.guess, self.plus, self.minus = guess, plus, minus


@obligation('C14.updated_generate_guess', functions=[PR + 'updated', PR + 'generate_guess'], max_paths=200,
            stubs=['numpy.random.* (contract stub)'],
            bounds='updated() on Uniform and Gaussian with symbolic posterior value/uncertainties; '
                   'generate_guess for 2 priors, nguess=2, symbolic scaling')
def updated_generate(S):
    rnd = _setup(S)
    lb, ub = S.real('lb'), S.real('ub')
    S.assume(lb < ub)
    v, plus, minus, extra = S.real('v'), S.real('plus', pos=True), S.real('minus', pos=True), S.real('extra', lo=0)
    S.assume(v >= lb)
    S.assume(v <= ub)
    U = Uniform(lb, ub, name='nm')
    new = updated(U, _UV(v, plus, minus), extra)
    S.claim('bounded_kept', isinstance(new, BoundedGaussian) and new.name == 'nm')
    S.claim_eq('lb_kept', new.lower_bound, lb)
    S.claim_eq('ub_kept', new.upper_bound, ub)
    S.claim_eq('mu', new.mu, v)
    S.claim('sd_is_max', _and(S, new.sd >= plus, new.sd >= minus, new.sd >= extra,
                              _or(S, new.sd == plus, new.sd == minus, new.sd == extra)))
    G = Gaussian(S.real('mu'), S.real('sd', pos=True), name='gg')
    newg = updated(G, _UV(v, plus, minus))
    S.claim('gaussian_stays_unbounded', type(newg) is Gaussian and newg.name == 'gg')
    S.claim_eq('g_mu', newg.mu, v)
    # generate_guess
    scaling = S.real('scaling')
    k0 = rnd.k
    out = generate_guess([U, G], nguess=2, scaling=scaling, seed=None)
    S.claim('shape', np.shape(out) == (2, 2))
    for i in range(2):
        ui = S.real(f'u{k0 + 1 + i}')
        gi = S.real(f'g{k0 + 3 + i}')
        S.claim_eq(f'row{i}.uniform', out[i][0], U.guess + scaling * (ui - U.guess))
        S.claim_eq(f'row{i}.gauss', out[i][1], G.guess + scaling * (gi - G.guess))
    S.observe('out', out)
