"""C16 - images keep values, coordinates and metadata through averaging and metadata edits
(byte-level HDF5/TIFF I/O is outside the reach of the solver, see DESIGN.md)."""
import itertools

import numpy as np
import xarray as xr

from symx import core
from symx.core import SymR
from symx.harness import obligation
from symx.shim import shim_np, shim_xarray_mean

LEVEL = 'model_checking'
ASSUMPTIONS = [
    "floats are modelled as reals",
    "load_image is replaced by a stub returning the symbolic images (PIL decoding outside the claim)",
    "h5netcdf/HDF5, PIL/TIFF and YAML-packed attrs (byte-level C libraries) are outside the claim",
]

import holopy.core.io.io as io_mod
import holopy.core.metadata as meta
import holopy.core.utils as utils
import holopy.core.math as hm
from holopy.core.io.io import Accumulator
from holopy.core.metadata import data_grid, update_metadata, make_coords, detector_grid

IO = 'holopy.core.io.io.'
MD = 'holopy.core.metadata.'


def _setup(S):
    if S.sym:
        for m in (io_mod, meta, utils, hm):
            shim_np(S, m)
        shim_xarray_mean(S)


def _img(S, name, shape=(2, 2), spacing=0.1, **kw):
    vals = np.empty(shape, dtype=object if S.sym else float)
    for i in range(shape[0]):
        for j in range(shape[1]):
            vals[i, j] = S.real(f'{name}{i}{j}')
    return data_grid(vals, spacing=spacing, **kw), vals


def _welford(S, n, shape=(1, 2), check_perm=True):
    _setup(S)
    imgs = [_img(S, f'im{k}_', shape)[0] for k in range(n)]
    acc = Accumulator()
    for im in imgs:
        acc.push(im)
    mean = acc.mean()
    vals = [im.values for im in imgs]
    batch_mean = sum(vals) / n
    S.observe('mean', mean.values)
    S.claim_eq('mean_is_batch_mean', mean.values, batch_mean)
    batch_var = sum((v - batch_mean) ** 2 for v in vals) / n
    # std^2 = batch variance (population), std >= 0
    std = acc.std()
    S.claim_eq('std_squared_is_batch_variance', std.values ** 2, batch_var)
    for i, v in enumerate(std.values.reshape(-1)):
        S.claim(f'std_nonnegative[{i}]', v >= 0)
    S.claim('coords_kept', list(mean.x.values) == list(imgs[0].x.values) and mean.dims == imgs[0].dims)
    if check_perm:
        for perm in ([n - 1] + list(range(n - 1)), list(reversed(range(n)))):
            acc2 = Accumulator()
            for k in perm:
                acc2.push(imgs[k])
            S.claim_eq(f'mean_order{perm}', acc2.mean().values, mean.values)
            S.claim_eq(f'var_order{perm}', acc2._running_var.values, acc._running_var.values)
    # inputs untouched
    for k, im in enumerate(imgs):
        S.claim_eq(f'input{k}_untouched', im.values, vals[k])


ACC = [IO + 'Accumulator.push', IO + 'Accumulator.mean', IO + 'Accumulator.std']


def _mk_welford(n, tier='quick'):
    @obligation(f'C16.accumulator.n{n}', functions=ACC, tier=tier, timeout_s=120,
                bounds=f'{n} images of shape 1x2 with all pixel values symbolic, pushed in order, rotated and reversed '
                       'order: mean = sum/n, running variance = sum (x-mean)^2 (symmetric in the inputs)')
    def ob(S):
        _welford(S, n)
    return ob


for _n in (1, 2, 3, 4):
    _mk_welford(_n)
for _n in (5, 6):
    _mk_welford(_n, tier='thorough')


@obligation('C16.accumulator.all_orders3', functions=ACC,
            bounds='3 images (1x1), every one of the 6 push orders gives identical mean and variance terms')
def all_orders3(S):
    _setup(S)
    imgs = [_img(S, f'im{k}_', (1, 1))[0] for k in range(3)]
    ref = None
    for perm in itertools.permutations(range(3)):
        acc = Accumulator()
        for k in perm:
            acc.push(imgs[k])
        if ref is None:
            ref = acc
            S.observe('mean', acc.mean().values)
        else:
            S.claim_eq(f'mean{perm}', acc.mean().values, ref.mean().values)
            S.claim_eq(f'var{perm}', acc._running_var.values, ref._running_var.values)
    empty = Accumulator()
    S.claim('empty_mean_is_zero', empty.mean() == 0.0)
    S.claim('empty_std_is_none', empty.std() is None)


def _load_average_body(S, shape):
    _setup(S)
    imgs = {}
    for k in range(3):
        im, v = _img(S, f'f{k}_', shape)
        for x in v.reshape(-1):
            S.assume(x > 0)
        imgs[f'file{k}.tif'] = im

    def fake_load_image(path, spacing=None, channel=None, **kw):
        return imgs[path].copy()
    S.patch(io_mod, 'load_image', fake_load_image, both=True)
    a = io_mod.load_average(['file0.tif', 'file1.tif', 'file2.tif'], spacing=0.1)
    b = io_mod.load_average(['file2.tif', 'file0.tif', 'file1.tif'], spacing=0.1)
    S.observe('mean', a.values)
    batch = sum(imgs[f'file{k}.tif'].values for k in range(3)) / 3
    S.claim_eq('mean_is_pixelwise_mean', a.values, batch)
    S.claim_eq('mean_order_independent', b.values, a.values)
    na, nb = a.attrs['noise_sd'], b.attrs['noise_sd']
    na = na.item() if hasattr(na, 'item') else na
    nb = nb.item() if hasattr(nb, 'item') else nb
    S.observe('noise', na)
    S.claim_eq('noise_order_independent', nb, na)
    # noise_sd = mean over pixels of std/mean, written independently
    var = sum((imgs[f'file{k}.tif'].values - batch) ** 2 for k in range(3)) / 3
    ratios = np.sqrt(var) / batch
    S.claim_eq('noise_is_mean_relative_std', na, sum(ratios.reshape(-1)) / ratios.size)


LA = [IO + 'load_average', MD + 'update_metadata', MD + 'get_spacing'] + ACC


@obligation('C16.load_average', functions=LA,
            stubs=['holopy.core.io.io.load_image := stub returning the symbolic images'],
            bounds='3 files with 1x2 symbolic positive images, file orders (0,1,2) and (2,0,1): pixelwise mean and '
                   'noise_sd = mean(std/mean) independent of order', timeout_s=120)
def load_average_ob(S):
    _load_average_body(S, (1, 2))


@obligation('C16.load_average.2x2', functions=LA, tier='thorough', wall_s=2400, timeout_s=600,
            stubs=['holopy.core.io.io.load_image := stub returning the symbolic images'],
            bounds='3 files with 2x2 symbolic positive images, two file orders')
def load_average_2x2(S):
    _load_average_body(S, (2, 2))


@obligation('C16.update_metadata', functions=[MD + 'update_metadata', MD + 'to_vector', MD + 'dict_to_array'],
            bounds='2x2 symbolic image; symbolic medium index, wavelength, noise, polarization (a,b) of any norm != 0',
            timeout_s=60)
def update_metadata_ob(S):
    _setup(S)
    img, vals = _img(S, 'p', (2, 2), medium_index=1.33, illum_wavelen=0.66, illum_polarization=(1, 0),
                     noise_sd=0.05)
    before = dict(img.attrs)
    n, wl, nz = S.real('n', pos=True), S.real('wl', pos=True), S.real('noise', pos=True)
    a, b = S.real('a'), S.real('b')
    S.assume((a * a + b * b) > 0)
    new = update_metadata(img, medium_index=n)
    S.claim_eq('medium_index', new.attrs['medium_index'], n)
    for key in ('illum_wavelen', 'noise_sd'):
        S.claim(f'{key}_kept', new.attrs[key] == before[key])
    S.claim('polarization_kept', np.array_equal(np.asarray(new.attrs['illum_polarization'].values, dtype=float),
                                                np.asarray(before['illum_polarization'].values, dtype=float)))
    S.claim_eq('values_kept', new.values, img.values)
    S.claim('new_object', new is not img)
    S.claim('original_untouched', img.attrs['medium_index'] == 1.33 and dict(img.attrs).keys() == before.keys())
    new2 = update_metadata(img, illum_wavelen=wl, illum_polarization=(a, b), noise_sd=nz)
    S.claim_eq('wavelen', new2.attrs['illum_wavelen'], wl)
    S.claim_eq('noise', new2.attrs['noise_sd'], nz)
    S.claim('medium_kept', new2.attrs['medium_index'] == 1.33)
    pol = new2.attrs['illum_polarization'].values
    S.observe('pol', pol)
    S.claim_eq('polarization_unit_length', sum(p * p for p in pol), 1)
    S.claim('polarization_has_3_components', len(pol) == 3)
    # direction preserved: pol x (a,b,0) = 0 and pol.(a,b,0) > 0
    S.claim_eq('polarization_direction', pol[0] * b - pol[1] * a, 0)
    S.claim('polarization_orientation', (pol[0] * a + pol[1] * b) > 0)
    S.claim_eq('polarization_z', pol[2], 0)
    S.claim('original_polarization_untouched',
            np.array_equal(np.asarray(img.attrs['illum_polarization'].values, dtype=float), [1.0, 0.0, 0.0]))
    # 3-vector input is normalised as well
    c = S.real('c')
    new3 = update_metadata(img, illum_polarization=(a, b, c))
    p3 = new3.attrs['illum_polarization'].values
    S.claim_eq('polarization3_unit_length', sum(p * p for p in p3), 1)


@obligation('C16.update_metadata.channels', functions=[MD + 'update_metadata', MD + 'to_vector', MD + 'dict_to_array',
                                                       MD + 'detector_grid'],
            bounds='2x2 detector with illumination channels (red, green): per-channel wavelength / polarization / noise '
                   'given as dictionaries in either key order are stored under the right channel label')
def update_metadata_channels(S):
    _setup(S)
    det = detector_grid(2, 0.1, extra_dims={'illumination': ['red', 'green']})
    wr, wg = S.real('wl_red', pos=True), S.real('wl_green', pos=True)
    nr, ng = S.real('noise_red', pos=True), S.real('noise_green', pos=True)
    a, b = S.real('a'), S.real('b')
    S.assume((a * a + b * b) > 0)
    for order in (('red', 'green'), ('green', 'red')):
        wl = {k: {'red': wr, 'green': wg}[k] for k in order}
        nz = {k: {'red': nr, 'green': ng}[k] for k in order}
        pol = {k: {'red': (a, b), 'green': (0, 1)}[k] for k in order}
        new = update_metadata(det, illum_wavelen=wl, noise_sd=nz, illum_polarization=pol)
        tag = '_'.join(order)
        S.claim_eq(f'{tag}.wl_red', new.attrs['illum_wavelen'].sel(illumination='red').item(), wr)
        S.claim_eq(f'{tag}.wl_green', new.attrs['illum_wavelen'].sel(illumination='green').item(), wg)
        S.claim_eq(f'{tag}.noise_red', new.attrs['noise_sd'].sel(illumination='red').item(), nr)
        S.claim_eq(f'{tag}.noise_green', new.attrs['noise_sd'].sel(illumination='green').item(), ng)
        pr = new.attrs['illum_polarization'].sel(illumination='red').values
        pg = new.attrs['illum_polarization'].sel(illumination='green').values
        S.claim_eq(f'{tag}.pol_red_unit', sum(p * p for p in pr), 1)
        S.claim_eq(f'{tag}.pol_red_dir', pr[0] * b - pr[1] * a, 0)
        S.claim_eq(f'{tag}.pol_green', pg, np.array([0, 1, 0]))
    S.observe('wr', wr)


@obligation('C16.pixel_coordinates', functions=[MD + 'make_coords', MD + 'data_grid'],
            bounds='symbolic anisotropic spacing (sx, sy), shapes up to 3x4: pixel (i,j) sits at (i*sx, j*sy); '
                   'concrete-spacing data_grid places symbolic pixel values at those coordinates')
def pixel_coordinates(S):
    _setup(S)
    sx, sy = S.real('sx', pos=True), S.real('sy', pos=True)
    for shape in ((1, 2, 2), (1, 3, 4)):
        c = make_coords(shape, (sx, sy))
        for i in range(shape[1]):
            S.claim_eq(f'{shape}.x[{i}]', c['x'][i], i * sx)
        for j in range(shape[2]):
            S.claim_eq(f'{shape}.y[{j}]', c['y'][j], j * sy)
        S.claim('z', list(c['z']) == [0])
    c = make_coords((1, 2, 3), sx)
    S.claim_eq('scalar_spacing_y', c['y'][2], 2 * sx)
    S.observe('x1', c['x'][1])
    img, vals = _img(S, 'v', (2, 3), spacing=(0.1, 0.25))
    for i in range(2):
        for j in range(3):
            got = img.sel(x=i * 0.1, y=j * 0.25, method='nearest').values.reshape(-1)[0]
            S.claim_eq(f'value_at[{i},{j}]', got, vals[i, j])


@obligation('C16.load_average.refimg', functions=LA + [MD + 'copy_metadata'],
            stubs=['holopy.core.io.io.load_image := stub returning the symbolic images'], timeout_s=120, nvalid=2,
            bounds='2 files with 3x4 symbolic positive images, anisotropic spacing (0.1, 0.25), cropped to a 2x2 '
                   'reference sub-image with its own metadata: mean values are those of the selected pixels, '
                   'coordinates and metadata come from the reference image')
def load_average_refimg(S):
    _setup(S)
    sp = (0.1, 0.25)
    imgs = {}
    vals = {}
    for k in range(2):
        im, v = _img(S, f'g{k}_', (3, 4), spacing=sp)
        for x in v.reshape(-1):
            S.assume(x > 0)
        imgs[f'f{k}.tif'] = im
        vals[k] = v

    def fake_load_image(path, spacing=None, channel=None, **kw):
        return imgs[path].copy()
    S.patch(io_mod, 'load_image', fake_load_image, both=True)
    full = data_grid(np.zeros((3, 4)), spacing=sp, medium_index=1.33, illum_wavelen=0.66,
                     illum_polarization=(1, 0))
    ref = full.isel(x=slice(1, 3), y=slice(2, 4))
    out = io_mod.load_average(['f0.tif', 'f1.tif'], refimg=ref)
    S.observe('mean', out.values)
    S.claim('shape', out.sizes['x'] == 2 and out.sizes['y'] == 2)
    batch = (vals[0] + vals[1]) / 2
    S.claim_eq('values_are_selected_pixels', out.values.reshape(2, 2), batch[1:3, 2:4])
    S.claim('coords_x', np.allclose(out.x.values, ref.x.values))
    S.claim('coords_y', np.allclose(out.y.values, ref.y.values))
    S.claim('metadata_from_refimg', out.attrs.get('medium_index') == 1.33 and out.attrs.get('illum_wavelen') == 0.66)
    # noise = mean over the selected pixels of std/mean
    var = ((vals[0] - batch) ** 2 + (vals[1] - batch) ** 2) / 2
    ratios = (np.sqrt(var) / batch)[1:3, 2:4]
    nz = out.attrs['noise_sd']
    nz = nz.item() if hasattr(nz, 'item') else nz
    S.claim_eq('noise_over_selected_pixels', nz, sum(ratios.reshape(-1)) / 4)


class _SymArr(np.ndarray):
    """object ndarray whose astype(<integer type>) truncates symbolically (what NumPy does to floats)"""

    def astype(self, dtype, *a, **k):
        if np.dtype(dtype).kind in 'iu':
            out = np.empty(self.shape, dtype=object)
            for i, v in np.ndenumerate(np.asarray(self)):
                out[i] = core.sym_floor(v) if core.is_sym(v) else int(v)
            return out
        return np.asarray(self).astype(dtype, *a, **k)


def _export_quantisation(S, depth, full):
    _setup(S)
    saved = {}

    class _Img:
        def __init__(self, arr):
            self.arr = arr

        def save(self, filename, **kw):
            saved['arr'] = self.arr
            saved['filename'] = filename

    class _PIL:
        @staticmethod
        def fromarray(arr):
            return _Img(arr)
    S.patch(io_mod, 'pilimage', _PIL, both=True)
    vals = [S.real('v0', lo=0, hi=1), S.real('v1', lo=0, hi=1)]
    if S.sym:
        arr = np.array([vals], dtype=object).view(_SymArr)
    else:
        arr = np.array([vals], dtype=float)

    class _Image:
        name = 'img'
        values = arr
    try:
        io_mod._save_im('out.png', _Image(), depth=depth)
        raised = None
    except TypeError as e:      # e.g. an integer type name NumPy does not know
        raised = e
    S.claim('export_succeeds', raised is None)
    if raised is not None:
        return
    q = np.asarray(saved['arr']).reshape(-1)
    S.claim('filename_kept', saved['filename'] == 'out.png')
    for i in range(2):
        S.observe(f'level{i}', q[i])
        S.claim_ge(f'level{i}.at_least_0', q[i], 0)
        S.claim_le(f'level{i}.at_most_full_scale', q[i], full)
        err = q[i] - vals[i] * full         # in units of one stored level
        S.claim_le(f'level{i}.error_upper', err, 0.5 + 1e-6)
        S.claim_ge(f'level{i}.error_lower', err, -(0.5 + 1e-6))


def _mk_export(depth, full):
    @obligation(f'C16.export_quantisation.depth{depth}', functions=[IO + '_save_im'], max_paths=64, nvalid=2,
                stubs=['PIL.Image.fromarray(...).save := recorder (no file is written)'],
                bounds=f'_save_im with depth {depth} on a 1x2 image with symbolic values in [0, 1]: the stored integer '
                       f'levels are in 0..{full} and within (0.5 + 1e-6)/{full} of the value (the stated quantisation '
                       'of the export)')
    def ob(S):
        _export_quantisation(S, depth, full)
    return ob


_mk_export(8, 255)
_mk_export(16, 2 ** 15 - 1)
_mk_export(32, 2 ** 31 - 1)


def _tiff_reload(S, depth, full_scale, scaling='auto'):
    """Real save_image writes a real TIFF (concrete image, real metadata tag) into a scratch directory; the pixel
    decoder (load_image) is then replaced by a stub returning arbitrary stored levels, and the real load() undoes
    the export scaling."""
    import os
    import shutil
    import tempfile
    _setup(S)
    orig_vals = np.array([[20.0, 21.5], [23.5, 22.0]])
    smin, smax = (20.0, 23.5) if scaling == 'auto' else scaling
    im = data_grid(orig_vals.copy(), spacing=(0.1, 0.3), medium_index=1.33, illum_wavelen=0.66,
                   illum_polarization=(0, 1), noise_sd=0.08, name='holo')
    tmp = tempfile.mkdtemp(prefix='symx_c16_')
    try:
        fn = os.path.join(tmp, 'im.tif')
        real_np = io_mod.np
        io_mod.save_image(fn, im, scaling=scaling, depth=depth)
        decoded = io_mod.load_image(fn, spacing=(0.1, 0.3), name='holo', channel='all')
        # stored levels: the export fills the whole range, so level 0 and full scale are present
        p, q = S.real('level_p', lo=0, hi=full_scale), S.real('level_q', lo=0, hi=full_scale)
        levels = np.empty(decoded.shape, dtype=object if S.sym else float)
        if scaling == 'auto':
            flat = [0.0, p, full_scale, q]
        else:
            # an explicit range wider than the data: the stored levels need not reach 0 or full scale
            r, t = S.real('level_r', lo=0, hi=full_scale), S.real('level_t', lo=0, hi=full_scale)
            S.assume(p < q, 'at least two different stored levels')
            flat = [p, q, r, t]
        for k, idx in enumerate(np.ndindex(*decoded.shape)):
            levels[idx] = flat[k % 4]
        stub_result = decoded.copy(data=levels)

        def _load_image(inf, spacing=None, **kw):
            return stub_result
        S.patch(io_mod, 'load_image', _load_image, both=True)
        loaded = io_mod.load(fn)
    finally:
        shutil.rmtree(tmp, ignore_errors=True)
    got = np.asarray(loaded.values).reshape(-1)
    S.observe('loaded', got)
    S.claim('shape', tuple(np.shape(np.squeeze(loaded.values))) == (2, 2))
    S.claim('name', loaded.name == 'holo')
    S.claim('medium_index', loaded.attrs.get('medium_index') == 1.33)
    S.claim('illum_wavelen', loaded.attrs.get('illum_wavelen') == 0.66)
    S.claim('noise_sd', loaded.attrs.get('noise_sd') == 0.08)
    S.claim('spacing', bool(np.allclose(np.diff(loaded.x.values), 0.1) and np.allclose(np.diff(loaded.y.values), 0.3)))
    for k in range(4):
        S.claim_eq(f'pixel{k}.value', got[k], smin + flat[k] * (smax - smin) / full_scale)


@obligation('C16.tiff_reload.depth8', functions=[IO + 'load', IO + 'save_image', IO + '_save_im', IO + 'pack_attrs',
                                                 IO + 'unpack_attrs'], max_paths=64, nvalid=2,
            stubs=['load_image := arbitrary stored levels 0..255 with 0 and 255 present (what the auto-scaled export '
                   'writes); PIL decoding outside the claim'],
            bounds='2x2 image exported by the real save_image (8 bit, automatic scaling) into a scratch TIFF; on reload '
                   'a stored level L becomes smin + L (smax-smin)/255 for every level, metadata/name/spacing return')
def tiff_reload_8(S):
    _tiff_reload(S, 8, 255.0)


@obligation('C16.tiff_reload.float', functions=[IO + 'load', IO + 'save_image', IO + '_save_im', IO + 'pack_attrs',
                                                IO + 'unpack_attrs'], max_paths=64, nvalid=2,
            stubs=['load_image := arbitrary stored values in [0, 1] with 0 and 1 present; PIL decoding outside the claim'],
            bounds="same with depth='float': a stored value v in [0,1] becomes smin + v (smax-smin)")
def tiff_reload_float(S):
    _tiff_reload(S, 'float', 1.0)


@obligation('C16.tiff_reload.depth16', functions=[IO + 'load', IO + 'save_image', IO + '_save_im', IO + 'pack_attrs',
                                                  IO + 'unpack_attrs'], max_paths=64, nvalid=2,
            stubs=['load_image := arbitrary stored levels 0..32767 with 0 and 32767 present; PIL decoding outside the claim'],
            bounds='same with depth=16: the real export succeeds and a stored level L becomes smin + L (smax-smin)/32767')
def tiff_reload_16(S):
    _tiff_reload(S, 16, 32767.0)


# ---------------------------------------------------------------------------
# HDF5 attribute packing: pack_attrs -> (attribute store) -> unpack_attrs
# ---------------------------------------------------------------------------

def _h5_store(packed):
    """what h5netcdf hands back for the attributes written by save(): strings stay strings, lists of numbers come
    back as arrays (a one-element list as a NumPy scalar) - checked against a real save/load in the same obligation"""
    out = {}
    for k, v in packed.items():
        if isinstance(v, list):
            arr = np.asarray(v, dtype=object if any(core.is_sym(x) for x in v) else None)
            out[k] = arr.reshape(-1)[0] if arr.size == 1 else arr
        else:
            out[k] = v
    return out


def _h5_attrs(S, layout):
    import os
    import shutil
    import tempfile
    _setup(S)
    vals = np.array([[1.0, 2.0], [3.0, 4.0]])
    if layout == 'scalar':
        img = data_grid(vals, spacing=(0.1, 0.3), medium_index=1.33, illum_wavelen=0.66, illum_polarization=(1, 0),
                        noise_sd=0.08, name='holo')
        sym_noise = None
    elif layout == 'averaged':
        # the layout load_average produces for single-channel images: noise_sd is a 0-d DataArray
        img = data_grid(vals, spacing=(0.1, 0.3), medium_index=1.33, illum_wavelen=0.66, illum_polarization=(1, 0),
                        name='holo')
        sym_noise = None     # a scalar goes through yaml.dump, which only takes concrete numbers
    else:
        img = data_grid(np.stack([vals, vals + 1], axis=-1), spacing=(0.1, 0.3), medium_index=1.33,
                        illum_wavelen={'red': 0.66, 'green': 0.52}, illum_polarization={'red': (1, 0), 'green': (0, 1)},
                        noise_sd={'red': 0.08, 'green': 0.11}, name='holo',
                        extra_dims={'illumination': ['red', 'green']})
        sym_noise = [S.real('noise_red', pos=True), S.real('noise_green', pos=True)]
    # 1. a real save / load cycle of this layout (concrete numbers) in a scratch directory
    conc = img.copy()
    if layout == 'averaged':
        conc.attrs['noise_sd'] = xr.DataArray(0.08)
    tmp = tempfile.mkdtemp(prefix='symx_c16_')
    try:
        fn = os.path.join(tmp, 'im.h5')
        io_mod.save(fn, conc)
        back = io_mod.load(fn)
        back.load()
        back.close()
    finally:
        shutil.rmtree(tmp, ignore_errors=True)
    S.claim('file.values', bool(np.array_equal(back.values, conc.values)))
    S.claim('file.coords', all(bool(np.array_equal(back[d].values, conc[d].values)) for d in conc.dims))
    S.claim('file.name', back.name == 'holo')
    S.claim('file.medium_index', back.attrs.get('medium_index') == 1.33)
    S.claim('file.noise', bool(np.allclose(np.asarray(back.attrs.get('noise_sd'), dtype=float).reshape(-1),
                                           np.asarray(conc.attrs['noise_sd'], dtype=float).reshape(-1))))
    S.claim('file.wavelen', bool(np.allclose(np.asarray(back.attrs.get('illum_wavelen'), dtype=float).reshape(-1),
                                             np.asarray(conc.attrs['illum_wavelen'], dtype=float).reshape(-1))))
    S.claim('file.polarization', bool(np.allclose(np.asarray(back.attrs['illum_polarization'].values, dtype=float),
                                                  np.asarray(conc.attrs['illum_polarization'].values, dtype=float))))
    # 2. the packing functions on arbitrary noise values
    if sym_noise is None:
        return
    im2 = img.copy()
    obj = object if S.sym else float
    old = img.attrs['noise_sd']
    im2.attrs['noise_sd'] = xr.DataArray(np.array(sym_noise, dtype=obj), dims=old.dims,
                                         coords={d: old[d].values for d in old.dims})
    unpacked = io_mod.unpack_attrs(_h5_store(io_mod.pack_attrs(im2)))
    got = unpacked['noise_sd']
    gv = np.asarray(got.values if hasattr(got, 'values') else got, dtype=obj).reshape(-1)
    S.observe('noise', gv)
    S.claim('attrs.noise_count', len(gv) == len(sym_noise))
    for k, v in enumerate(sym_noise):
        S.claim_eq(f'attrs.noise[{k}]', gv[k], v)
    if layout == 'channels':
        S.claim('attrs.noise_channels', list(got['illumination'].values) == list(img.attrs['noise_sd']['illumination'].values))
    S.claim('attrs.medium_index', unpacked['medium_index'] == 1.33)
    S.claim('attrs.input_untouched', im2.attrs['medium_index'] == 1.33 and 'noise_sd' in im2.attrs)


def _mk_h5(layout, text):
    @obligation(f'C16.h5_attrs.{layout}', functions=[IO + 'pack_attrs', IO + 'unpack_attrs', IO + 'save', IO + 'load'],
                nvalid=2 if layout == 'channels' else 1, max_paths=64,
                stubs=['attribute store between pack_attrs and unpack_attrs := lists come back as arrays (symbolic part); '
                       'the concrete part writes and reads a real HDF5 file in a scratch directory'],
                bounds=f'2x2 image, {text}: a real save/load cycle returns values, coordinates, name and metadata; '
                       'for per-channel noise, pack_attrs -> unpack_attrs returns every (symbolic) noise value')
    def ob(S):
        _h5_attrs(S, layout)
    return ob


_mk_h5('scalar', 'scalar metadata')
_mk_h5('averaged', 'noise_sd a dimensionless DataArray (what load_average produces for one channel)')
_mk_h5('channels', 'two illumination channels with per-channel wavelength, polarization and noise')


@obligation('C16.tiff_reload.explicit_scaling', functions=[IO + 'load', IO + 'save_image', IO + '_save_im',
                                                           IO + 'pack_attrs', IO + 'unpack_attrs'], max_paths=200, nvalid=2,
            stubs=['load_image := four arbitrary stored levels in 0..255 (at least two different); PIL decoding outside the claim'],
            bounds='2x2 image exported by the real save_image with scaling=(10, 30), 8 bit: on reload a stored level L '
                   'becomes 10 + 20 L/255 whether or not the levels 0 and 255 occur in the file')
def tiff_reload_explicit(S):
    _tiff_reload(S, 8, 255.0, scaling=(10.0, 30.0))
