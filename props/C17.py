"""C17 - fft/ifft are inverses; propagation is a norm-bounded linear group action."""
import numpy as np
import xarray as xr
import z3

from symx import core
from symx.core import SymR, SymC
from symx.dft import FFTStub
from symx.harness import obligation
from symx.shim import shim_np, NpShim

LEVEL = 'model_checking'
ASSUMPTIONS = [
    "numpy's pocketfft computes the exact DFT (contract): np.fft.fft2/ifft2 are replaced by an exact "
    "symbolic DFT over Q(i, sqrt 3) for axis lengths 1,2,3,4,6; np.fft.fftshift/ifftshift are NumPy's own code",
    "wavelength, medium index and pixel spacing are concrete (frequency grid and evanescent mask concrete); "
    "pixel values and distances are symbolic",
    "images whose coordinates start at 0 (as built by detector_grid/load_image)",
    "floats are modelled as reals",
]

import holopy.core.process.fourier as fmod
import holopy.propagation.convolution_propagation as pmod
import holopy.core.metadata as meta
import holopy.core.utils as utils
from holopy.core.metadata import data_grid
from holopy.core.process import fft, ifft
from holopy.propagation import propagate
from holopy.propagation.convolution_propagation import trans_func

FF = 'holopy.core.process.fourier.'
PP = 'holopy.propagation.convolution_propagation.'


def _allclose(a, b, *args, **kw):
    from symx.shim import _has_sym
    if not (_has_sym(a) or _has_sym(b)):
        return np.allclose(a, b, *args, **kw)
    a, b = np.asarray(a, dtype=object), np.asarray(b, dtype=object)
    a, b = np.broadcast_arrays(a, b)
    ok = True
    for x, y in zip(a.reshape(-1), b.reshape(-1)):
        if not (x == y):
            ok = False
    return ok


def _setup(S):
    if S.sym:
        stub = FFTStub()
        for mod in (fmod, pmod):
            shim_np(S, mod, extra={'fft': stub, 'allclose': _allclose})
        shim_np(S, meta)
        shim_np(S, utils)
        import holopy.core.math as hm
        shim_np(S, hm)
        return stub
    return None


def _image(S, shape, cplx=True, spacing=0.1, name='x', with_optics=True, wavelen=0.66, index=1.33):
    nx, ny = shape
    vals = np.empty((nx, ny), dtype=object if S.sym else complex)
    for i in range(nx):
        for j in range(ny):
            vals[i, j] = S.cplx(f'{name}{i}{j}') if cplx else S.real(f'{name}{i}{j}')
    kw = dict(medium_index=index, illum_wavelen=wavelen, illum_polarization=(1, 0)) if with_optics else {}
    return data_grid(vals, spacing=spacing, **kw), vals


def _roundtrip(S, shape, shift=True, cplx=True):
    _setup(S)
    img, vals = _image(S, shape, cplx=cplx, spacing=(0.1, 0.25))
    f = fft(img, shift=shift)
    S.observe('ft', f.values)
    back = ifft(f, shift=shift)
    S.claim('dims', tuple(back.dims) == tuple(img.dims))
    S.claim_eq('values', back.values.reshape(shape), vals)
    S.claim('coords_x', bool(np.allclose(back.x.values, img.x.values, atol=1e-12)))
    S.claim('coords_y', bool(np.allclose(back.y.values, img.y.values, atol=1e-12)))
    S.claim('attrs', dict(back.attrs).keys() == dict(img.attrs).keys())
    S.claim('ft_dims', 'm' in f.dims and 'n' in f.dims)


def _mk_roundtrip(shape, tier='quick', shift=True, cplx=True):
    tag = f"{shape[0]}x{shape[1]}" + ('' if shift else '.noshift') + ('' if cplx else '.real')

    @obligation(f'C17.fft_ifft.{tag}', functions=[FF + 'fft', FF + 'ifft', FF + 'transform_metadata',
                                                   FF + 'ft_coords', FF + 'ift_coords', FF + 'ft_coord',
                                                   FF + 'ift_coord', FF + 'get_spacing', 'numpy.fft.fftshift'],
                bounds=f'{"complex" if cplx else "real"} image of shape {shape}, all pixel values symbolic, '
                       f'shift={shift}, anisotropic spacing (0.1, 0.25)',
                stubs=['np.fft.fft2/ifft2 := exact symbolic DFT'], tier=tier, nvalid=2)
    def ob(S):
        _roundtrip(S, shape, shift, cplx)
    return ob


for _shape in [(2, 2), (2, 3), (3, 2), (3, 3), (3, 4), (4, 4), (4, 3)]:
    _mk_roundtrip(_shape)
for _shape in [(2, 2), (3, 3)]:
    _mk_roundtrip(_shape, shift=False)
_mk_roundtrip((3, 2), cplx=False)
for _shape in [(6, 3), (6, 6), (4, 6), (2, 4), (2, 6), (8, 2), (3, 8), (8, 8), (12, 3)]:
    _mk_roundtrip(_shape, tier='thorough')
for _shape in [(3, 4), (4, 4)]:
    _mk_roundtrip(_shape, tier='thorough', shift=False)


@obligation('C17.fft_ifft.1d', functions=[FF + 'fft', FF + 'ifft'], nvalid=2,
            bounds='1-D arrays of length 2,3,4 (symbolic complex entries), shift on and off',
            stubs=['np.fft.fft/ifft := exact symbolic DFT'])
def roundtrip_1d(S):
    _setup(S)
    for n in (2, 3, 4):
        x = np.array([S.cplx(f'v{n}_{i}') for i in range(n)], dtype=object if S.sym else complex)
        for shift in (False, True):
            back = ifft(fft(x, shift=shift), shift=shift)
            S.claim_eq(f'n{n}.shift{shift}', back, x)


@obligation('C17.coords.symbolic_spacing', functions=[FF + 'ft_coord', FF + 'ift_coord', FF + 'get_spacing'],
            bounds='coordinate axes i*s for symbolic spacing s>0 and lengths 2..6: ift_coord(ft_coord(c)) = c',
            nvalid=2)
def coords_symbolic(S):
    _setup(S)
    s = S.real('s', pos=True)
    for n in range(2, 7):
        c = np.array([i * s for i in range(n)], dtype=object if S.sym else float)
        m = fmod.ft_coord(c)
        S.observe(f'm{n}', m)
        back = fmod.ift_coord(m)
        S.claim_eq(f'n{n}', back, c)
        S.claim_eq(f'n{n}.symmetric', m[0], -m[-1])


# ---------------------------------------------------------------------------
# size generalisation: index maps of the shift calls actually made by fft/ifft
# ---------------------------------------------------------------------------

class AbsArr:
    """abstract 2-D image: records the np.fft calls the real fft()/ifft() make"""
    ndim = 2
    dims = ('x', 'y')

    def __init__(self, log=None, dims=('x', 'y')):
        self.log = log if log is not None else []
        self.dims = dims


class _AbsFFT:
    def fft2(self, a, axes=(-2, -1)):
        return AbsArr(a.log + [('fft2', tuple(axes))], ('m', 'n'))

    def ifft2(self, a, axes=(-2, -1)):
        return AbsArr(a.log + [('ifft2', tuple(axes))], ('x', 'y'))

    def fftshift(self, a, axes=None):
        return AbsArr(a.log + [('fftshift', tuple(axes) if axes is not None else (0, 1))], a.dims)

    def ifftshift(self, a, axes=None):
        return AbsArr(a.log + [('ifftshift', tuple(axes) if axes is not None else (0, 1))], a.dims)


def index_lemma(seed, tier):
    """custom obligation: run the real fft()/ifft() on an abstract array, turn the
    recorded shift calls into index maps over a symbolic axis length N in [1,64]
    and ask z3 (LIA with div/mod) whether the composition between fft2's output
    and ifft2's input is the identity for every N and every index."""
    import time
    t0 = time.time()
    res = dict(id='C17.fft_ifft.index_lemma', verdict='held', claims=[], paths=1, decisions=0, queries=0,
               solver_s=0.0, validated=0, violations=[], undecided=[], errors=[], assumptions=[
                   'np.fft.fftshift(x, axes)[i] = x[(i - N//2) mod N]; ifftshift(x, axes)[i] = x[(i + N//2) mod N] '
                   '(documented index maps, validated against numpy for N=1..9 on every run)',
                   'fft2/ifft2 along the same axes are mutually inverse operators'], notes=[], samples=[])
    # validate the documented index maps against numpy
    for N in range(1, 10):
        a = np.arange(N)
        if not (all(np.fft.fftshift(a)[i] == a[(i - N // 2) % N] for i in range(N)) and
                all(np.fft.ifftshift(a)[i] == a[(i + N // 2) % N] for i in range(N))):
            res['errors'].append(f'index-map model of fftshift wrong for N={N}')
    res['validated'] = 9
    old_f, old_p = fmod.np, None
    sh = NpShim(extra={'fft': _AbsFFT()})
    fmod.np = sh
    try:
        for shift in (True, False):
            f = fft(AbsArr(), shift=shift)
            back = ifft(AbsArr(f.log, ('m', 'n')), shift=shift)
            log = back.log
            names = [l[0] for l in log]
            if names.count('fft2') != 1 or names.count('ifft2') != 1 or names.index('fft2') > names.index('ifft2'):
                res['errors'].append(f'unexpected call sequence {log}')
                continue
            between = log[names.index('fft2') + 1:names.index('ifft2')]
            outside = log[:names.index('fft2')] + log[names.index('ifft2') + 1:]
            fax = log[names.index('fft2')][1]
            iax = log[names.index('ifft2')][1]
            for axis in (0, 1):
                N = z3.Int('N')
                i = z3.Int('i')
                cons = [N >= 1, N <= 64, i >= 0, i < N]
                # value at position i of ifft2's input comes from position src of fft2's output
                src = i
                for op, axes in reversed(between):
                    if axis in [a % 2 for a in axes]:
                        h = N / 2  # integer division for Int sort
                        src = (src - h) % N if op == 'fftshift' else (src + h) % N
                src_out = i
                for op, axes in reversed(outside):
                    if axis in [a % 2 for a in axes]:
                        h = N / 2
                        src_out = (src_out - h) % N if op == 'fftshift' else (src_out + h) % N
                for nm, expr in (('between', src), ('outside', src_out)):
                    s = z3.Solver()
                    s.set('timeout', 60000)
                    s.add(*cons)
                    s.add(expr != i)
                    t1 = time.time()
                    r = s.check()
                    res['queries'] += 1
                    res['solver_s'] += time.time() - t1
                    cname = f'shift={shift}.axis{axis}.{nm}_shifts_compose_to_identity'
                    if r == z3.unsat:
                        res['claims'].append(dict(name=cname, verdict='unsat', s=round(time.time() - t1, 3),
                                                  engine='z3-LIA', path=0, chart='std'))
                    elif r == z3.sat:
                        m = s.model()
                        Nv, iv = m[N].as_long(), m[i].as_long()
                        # replay on the real functions with a real array of that size
                        shape = [2, 2]
                        shape[axis] = Nv
                        fmod.np = old_f
                        try:
                            rep = _replay_index(dict(shape=shape, shift=shift))
                        finally:
                            fmod.np = sh
                        res['claims'].append(dict(name=cname, verdict='violated' if rep['status'] == 'reproduced'
                                                  else 'sat-not-reproduced', s=0, engine='z3-LIA', path=0, chart='std'))
                        if rep['status'] == 'reproduced':
                            res['violations'].append(dict(claim=cname, env=dict(N=Nv, i=iv), uf_tables={},
                                                          discrepancy=rep.get('discrepancy'), failed=[cname],
                                                          extra=dict(shape=shape, shift=shift)))
                        else:
                            res['errors'].append(f'{cname}: model N={Nv} i={iv} did not replay: {rep}')
                    else:
                        res['undecided'].append(cname)
            res['samples'].append(dict(claim=f'shift={shift}', calls=[list(map(str, l)) for l in log],
                                       smt='forall N in [1,64], 0<=i<N: compose(index maps) (i) = i'))
            if fax != iax and not (set(a % 2 for a in fax) == set(a % 2 for a in iax)):
                res['errors'].append(f'fft2 axes {fax} vs ifft2 axes {iax}')
    finally:
        fmod.np = old_f
    if res['violations']:
        res['verdict'] = 'violated'
    elif res['errors']:
        res['verdict'] = 'error'
    elif res['undecided']:
        res['verdict'] = 'undecided'
    res['wall_s'] = round(time.time() - t0, 2)
    res['functions'] = [FF + 'fft', FF + 'ifft']
    return res


def _replay_index(rep):
    ex = rep.get('extra') or rep
    shape, shift = ex['shape'], ex['shift']
    rng = np.random.RandomState(0)
    x = rng.rand(*shape) + 1j * rng.rand(*shape)
    img = data_grid(x, spacing=0.1)
    back = ifft(fft(img, shift=shift), shift=shift)
    d = float(np.abs(back.values.reshape(shape) - x).max())
    return dict(status='reproduced' if d > 1e-6 else 'not-reproduced', discrepancy=d)


REPLAY = {'C17.fft_ifft.index_lemma': _replay_index}

from symx.harness import Obligation  # noqa
OBLIGATIONS.append(Obligation('C17.fft_ifft.index_lemma', index_lemma, kind='custom',
                              functions=[FF + 'fft', FF + 'ifft'],
                              bounds='every axis length N in [1,64] and every index, both axes, shift on/off: the '
                                     'fftshift/ifftshift calls recorded from the real fft()/ifft() compose to the '
                                     'identity (z3 LIA with div/mod)',
                              stubs=['fft2/ifft2 := abstract inverse pair', 'fftshift/ifftshift := documented index maps']))


# ---------------------------------------------------------------------------
# transfer function
# ---------------------------------------------------------------------------

def _dz(S, vals):
    arr = np.array(vals, dtype=object if S.sym else float)
    return xr.DataArray(arr, dims=['z'], coords={'z': np.arange(len(vals), dtype=float)})


def _schema(shape, spacing):
    return data_grid(np.zeros(shape), spacing=spacing, medium_index=1.33, illum_wavelen=0.66)


def _is_zero(v):
    if isinstance(v, SymR):
        return v.c is not None and v.c == 0
    if isinstance(v, SymC):
        return _is_zero(v.re) and _is_zero(v.im)
    return v == 0


def _tf_body(S, shape, spacing, med_wavelen):
    _setup(S)
    d1, d2 = S.real('d1'), S.real('d2')
    sch = _schema(shape, spacing)
    G1 = trans_func(sch, _dz(S, [d1]), med_wavelen).values
    G2 = trans_func(sch, _dz(S, [d2]), med_wavelen).values
    G12 = trans_func(sch, _dz(S, [d1 + d2]), med_wavelen).values
    Gm = trans_func(sch, _dz(S, [-d1]), med_wavelen).values
    S.observe('G1', G1)
    S.claim('shape', G1.shape == G12.shape)
    S.claim_eq('group_law', G1 * G2, G12)
    # which frequencies are evanescent, computed independently of trans_func
    m = fmod.ft_coord(sch.x.values)
    n = fmod.ft_coord(sch.y.values)
    evan = {}
    flatG = G1.reshape(-1)
    mod2 = [abs(g) ** 2 for g in flatG]
    n_ev = 0
    for i, v in enumerate(mod2):
        if _is_zero(v):
            S.claim(f'modulus_at_most_one[{i}]', True)
        else:
            # |G|^2 <= 1, in the sharper form |G|^2 = 1
            S.claim_eq(f'unit_modulus[{i}]', v, 1)
    prod = (G1 * Gm).reshape(-1)
    for i, v in enumerate(prod):
        if _is_zero(mod2[i]):
            S.claim_eq(f'masked[{i}]', v, 0)
        else:
            S.claim_eq(f'inverse[{i}]', v, 1)
    root = 1 - (med_wavelen * m[:, None]) ** 2 - (med_wavelen * n[None, :]) ** 2
    return int((root < 0).sum()), root.size


TF = [PP + 'trans_func', FF + 'ft_coord']


@obligation('C17.trans_func.fine_sampling', functions=TF, nvalid=2,
            bounds='3x4 grid, spacing 0.1 (< half the medium wavelength 0.496: evanescent frequencies present), '
                   'symbolic distances d1, d2 of either sign: group law, |G| <= 1')
def tf_fine(S):
    n_ev, n = _tf_body(S, (3, 4), 0.1, 0.66 / 1.33)
    S.claim('grid_has_evanescent_frequencies', n_ev > 0)


@obligation('C17.trans_func.coarse_sampling', functions=TF, nvalid=2,
            bounds='3x4 grid, spacing 0.5 (> half the medium wavelength: no evanescent frequency), '
                   'symbolic distances d1, d2: group law, |G| = 1, G(d)G(-d) = 1')
def tf_coarse(S):
    n_ev, n = _tf_body(S, (3, 4), 0.5, 0.66 / 1.33)
    S.claim('grid_has_no_evanescent_frequency', n_ev == 0)


def _mk_cfsp(c):
    @obligation(f'C17.trans_func.cfsp{c}', functions=TF, nvalid=2,
                bounds=f'3x3 grid spacing 0.3, symbolic distance: cascaded propagation factor {c} gives the same '
                       'transfer function G(d/c)^c = G(d)')
    def ob(S):
        _setup(S)
        d = S.real('d')
        lam = 0.66 / 1.33
        sch = _schema((3, 3), 0.3)
        # cascaded propagation first so that the angle of G(d/c) is the base angle
        Gc = trans_func(sch, _dz(S, [d]), lam, cfsp=c).values
        G = trans_func(sch, _dz(S, [d]), lam).values
        S.observe('Gc', Gc)
        S.claim_eq(f'cfsp{c}', Gc, G)
    return ob


for _c in (2, 3, 5):
    _mk_cfsp(_c)


@obligation('C17.trans_func.options', functions=TF, nvalid=2,
            bounds='3x3 grid spacing 0.3; gradient filter with symbolic offset; list of 2 distances')
def tf_options(S):
    _setup(S)
    d, gf = S.real('d'), S.real('gf', nonzero=True)
    lam = 0.66 / 1.33
    sch = _schema((3, 3), 0.3)
    G = trans_func(sch, _dz(S, [d]), lam).values
    Gg = trans_func(sch, _dz(S, [d]), lam, gradient_filter=gf).values
    Gs = trans_func(sch, _dz(S, [d + gf]), lam).values
    S.observe('Gg', Gg)
    S.claim_eq('gradient_filter', Gg, G - Gs)
    d2 = S.real('d2')
    both = trans_func(sch, _dz(S, [d, d2]), lam)
    S.claim_eq('list_first', both.isel(z=0).values, trans_func(sch, _dz(S, [d]), lam).isel(z=0).values)
    S.claim_eq('list_second', both.isel(z=1).values, trans_func(sch, _dz(S, [d2]), lam).isel(z=0).values)


# ---------------------------------------------------------------------------
# propagate end to end
# ---------------------------------------------------------------------------

PR = [PP + 'propagate', PP + 'trans_func', FF + 'fft', FF + 'ifft', 'holopy.core.metadata.update_metadata',
      'holopy.core.metadata.copy_metadata']


def _vals(res, shape):
    v = res.values if hasattr(res, 'values') else res
    return np.asarray(v).reshape(shape)


def _propagate_body(S, shape, spacing, wavelen=0.66):
    _setup(S)
    img, vals = _image(S, shape, cplx=True, spacing=spacing, wavelen=wavelen)
    d1, d2 = S.real('d1', nonzero=True), S.real('d2', nonzero=True)
    S.assume(d1 + d2 != 0)
    r0 = propagate(img, 0)
    S.claim_is('zero_returns_input', r0, img)
    r1 = propagate(img, d1)
    S.observe('r1', r1.values)
    S.claim('dims', set(r1.dims) >= {'x', 'y'})
    S.claim('coords_x', bool(np.allclose(r1.x.values, img.x.values)))
    S.claim('coords_y', bool(np.allclose(r1.y.values, img.y.values)))
    S.claim('attrs_kept', r1.attrs.get('medium_index') == 1.33 and r1.attrs.get('illum_wavelen') == wavelen)
    r1sq = r1.squeeze('z') if 'z' in r1.dims else r1
    r12 = propagate(r1, d2)
    rsum = propagate(img, d1 + d2)
    S.claim_eq('compose', _vals(r12, shape), _vals(rsum, shape))
    return img, vals, r1


@obligation('C17.propagate.2x2', functions=PR, nvalid=2, timeout_s=120,
            bounds='2x2 complex image (all pixels symbolic), spacing 0.5, symbolic distances d1,d2 != 0',
            stubs=['np.fft.fft2/ifft2 := exact symbolic DFT'])
def propagate_2x2(S):
    _propagate_body(S, (2, 2), 0.5)


@obligation('C17.propagate.3x2', functions=PR, nvalid=2, timeout_s=120,
            bounds='3x2 complex image (all pixels symbolic), spacing 0.4, symbolic distances d1,d2 != 0',
            stubs=['np.fft.fft2/ifft2 := exact symbolic DFT'])
def propagate_3x2(S):
    _propagate_body(S, (3, 2), 0.4)


@obligation('C17.propagate.2x2_metres', functions=PR, nvalid=2, timeout_s=120,
            bounds='2x2 complex image in SI units (wavelength 6.6e-7, spacing 5e-7), symbolic distances: the same '
                   'identities hold when all lengths are ~1e-7 (no absolute length tolerance anywhere)',
            stubs=['np.fft.fft2/ifft2 := exact symbolic DFT'])
def propagate_2x2_metres(S):
    _propagate_body(S, (2, 2), 5e-7, wavelen=6.6e-7)


@obligation('C17.propagate.3x4', functions=PR, nvalid=1, timeout_s=240, tier='thorough',
            bounds='3x4 complex image, spacing 0.1 (evanescent frequencies present), symbolic d1,d2',
            stubs=['np.fft.fft2/ifft2 := exact symbolic DFT'])
def propagate_3x4(S):
    _propagate_body(S, (3, 4), 0.1)


@obligation('C17.propagate.linear_inverse_list', functions=PR, nvalid=2, timeout_s=120,
            bounds='2x3 images, spacing 0.5 (no evanescent frequency): linearity in the image (symbolic complex '
                   'coefficients), d then -d returns the input, list of distances (with and without 0) = stack '
                   'of single results in the given order',
            stubs=['np.fft.fft2/ifft2 := exact symbolic DFT'])
def propagate_linear(S):
    _setup(S)
    shape = (2, 3)
    a, va = _image(S, shape, name='a', spacing=0.5)
    b, vb = _image(S, shape, name='b', spacing=0.5)
    al, be = S.cplx('alpha'), S.cplx('beta')
    d = S.real('d', nonzero=True)
    d2 = S.real('d2', nonzero=True)
    S.assume(d != d2)
    comb = data_grid(al * va + be * vb, spacing=0.5, medium_index=1.33, illum_wavelen=0.66,
                     illum_polarization=(1, 0))
    pa, pb, pc = propagate(a, d), propagate(b, d), propagate(comb, d)
    S.observe('pa', pa.values)
    S.claim_eq('linear', _vals(pc, shape), al * _vals(pa, shape) + be * _vals(pb, shape))
    back = propagate(pa, -d)
    S.claim_eq('inverse', _vals(back, shape), va)
    # list of distances
    lst = propagate(a, [d, d2])
    S.claim('list_has_z', 'z' in lst.dims and lst.sizes['z'] == 2)
    S.claim_eq('list[0]', _vals(lst.isel(z=0), shape), _vals(pa, shape))
    S.claim_eq('list[1]', _vals(lst.isel(z=1), shape), _vals(propagate(a, d2), shape))
    lst0 = propagate(a, [0, d])
    S.claim('list0_has_z', 'z' in lst0.dims and lst0.sizes['z'] == 2)
    S.claim_eq('list0[0]', _vals(lst0.isel(z=0), shape), va)
    S.claim_eq('list0[1]', _vals(lst0.isel(z=1), shape), _vals(pa, shape))
    lst1 = propagate(a, [d, 0])
    S.claim('list_d0_has_z', 'z' in lst1.dims and lst1.sizes['z'] == 2)
    S.claim_eq('list_d0[0]', _vals(lst1.isel(z=0), shape), _vals(pa, shape))
    S.claim_eq('list_d0[1]', _vals(lst1.isel(z=1), shape), va)


def _abs2(v):
    return v.real * v.real + v.imag * v.imag


@obligation('C17.propagate.energy', functions=PR, nvalid=2, timeout_s=120,
            bounds='2x2 (spacing 0.5) and 2x3 (spacing 0.1, evanescent frequencies present) complex images, '
                   'symbolic distance: per spatial frequency |FT(out)_k|^2 <= |FT(in)_k|^2, and Parseval '
                   '(sum|FT|^2 = N sum|x|^2) for input and output; sum|out|^2 <= sum|in|^2 is their '
                   'linear consequence (not put to the solver as one query)',
            stubs=['np.fft.fft2/ifft2 := exact symbolic DFT'])
def propagate_energy(S):
    _setup(S)
    for shape, sp in (((2, 2), 0.5), ((2, 3), 0.1)):
        img, vals = _image(S, shape, name=f'e{shape[1]}', spacing=sp)
        d = S.real('d', nonzero=True)
        res = propagate(img, d)
        out = _vals(res, shape)
        N = shape[0] * shape[1]
        ein = sum(_abs2(v) for v in vals.reshape(-1))
        eout = sum(_abs2(v) for v in out.reshape(-1))
        S.observe(f'eout{shape}', eout)
        fin = fft(img).values.reshape(-1)
        outimg = data_grid(out, spacing=sp, medium_index=1.33, illum_wavelen=0.66)
        fout = fft(outimg).values.reshape(-1)
        S.claim_eq(f'parseval_in{shape}', sum(_abs2(v) for v in fin), ein * N)
        S.claim_eq(f'parseval_out{shape}', sum(_abs2(v) for v in fout), eout * N)
        for k in range(N):
            a2, b2 = _abs2(fout[k]), _abs2(fin[k])
            S.claim(f'per_frequency{shape}[{k}]', a2 <= b2 * (1 + 1e-9) + 1e-12 if not S.sym else a2 <= b2)


# ---------------------------------------------------------------------------
# images whose coordinates do not start at 0 (cropped sub-images)
# ---------------------------------------------------------------------------

def _offset_image(S, shape, spacing, origin, name='x'):
    img, vals = _image(S, shape, cplx=True, spacing=spacing, name=name)
    return img.assign_coords(x=img.x.values + origin[0], y=img.y.values + origin[1]), img, vals


@obligation('C17.propagate.offset_origin', functions=PR, nvalid=2, timeout_s=120,
            bounds='2x3 complex image (all pixels symbolic), spacing 0.5, coordinates starting at (1.0, 1.5) as in a '
                   'cropped sub-image, symbolic distance d != 0 and the list [d, d2]: the result keeps the input\'s '
                   'pixel coordinates and metadata, and its values equal those for the same pixels at origin 0',
            stubs=['np.fft.fft2/ifft2 := exact symbolic DFT'])
def propagate_offset_origin(S):
    _setup(S)
    shape = (2, 3)
    sub, img0, vals = _offset_image(S, shape, 0.5, (1.0, 1.5))
    d, d2 = S.real('d', nonzero=True), S.real('d2', nonzero=True)
    S.assume(d != d2)
    for tag, dist, nz in (('single', d, 1), ('list', [d, d2], 2)):
        res = propagate(sub, dist)
        ref = propagate(img0, dist)
        S.claim(f'{tag}.coords_x', bool(np.allclose(res.x.values, sub.x.values, atol=1e-12)))
        S.claim(f'{tag}.coords_y', bool(np.allclose(res.y.values, sub.y.values, atol=1e-12)))
        S.claim(f'{tag}.attrs_kept', res.attrs.get('medium_index') == 1.33 and res.attrs.get('illum_wavelen') == 0.66)
        S.claim_eq(f'{tag}.values', np.asarray(res.transpose(..., 'x', 'y').values).reshape(-1),
                   np.asarray(ref.transpose(..., 'x', 'y').values).reshape(-1))
        if tag == 'single':
            S.observe('res', res.values)
    S.claim('input_coords_untouched', bool(np.allclose(sub.x.values, [1.0, 1.5])))


@obligation('C17.fft_ifft.offset_origin', functions=[FF + 'fft', FF + 'ifft', FF + 'transform_metadata',
                                                     FF + 'ft_coords', FF + 'ift_coords', FF + 'ft_coord',
                                                     FF + 'ift_coord', FF + 'get_spacing'], nvalid=2,
            bounds='3x2 complex image (all pixels symbolic), spacing (0.1, 0.25), coordinates starting at (0.2, 0.75): '
                   'ifft(fft(img)) returns the values, the pixel spacing and the coordinates',
            stubs=['np.fft.fft2/ifft2 := exact symbolic DFT'])
def roundtrip_offset_origin(S):
    _setup(S)
    shape = (3, 2)
    sub, img0, vals = _offset_image(S, shape, (0.1, 0.25), (0.2, 0.75))
    back = ifft(fft(sub))
    S.observe('back', back.values)
    S.claim_eq('values', back.values.reshape(shape), vals)
    S.claim('spacing_x', bool(np.allclose(np.diff(back.x.values), np.diff(sub.x.values), atol=1e-12)))
    S.claim('spacing_y', bool(np.allclose(np.diff(back.y.values), np.diff(sub.y.values), atol=1e-12)))
    S.claim('coords_x', bool(np.allclose(back.x.values, sub.x.values, atol=1e-12)))
    S.claim('coords_y', bool(np.allclose(back.y.values, sub.y.values, atol=1e-12)))
