"""C18 - image-processing tools satisfy their defining identities (normalize, bg_correct,
subimage, accumulator).  zero_filter, detrend and center_find run through xarray
interpolate_na / LAPACK / scipy.ndimage and are outside the reach of the solver."""
import itertools

import numpy as np
import xarray as xr

from symx import core
from symx.harness import obligation
from symx.shim import shim_np, shim_xarray_mean

LEVEL = 'model_checking'
ASSUMPTIONS = [
    "floats are modelled as reals",
    "zero_filter is assumed to be the identity on strictly positive images inside bg_correct (that clause of C18 "
    "is NOT decided: xarray interpolate_na cannot run on symbolic data)",
    "detrend (LAPACK lstsq via scipy.signal) and center_find/make_center_priors (scipy.ndimage) are outside the claim",
]

import holopy.core.process.img_proc as ip
import holopy.core.metadata as meta
import holopy.core.utils as utils
import holopy.core.math as hm
from holopy.core.errors import BadImage
from holopy.core.metadata import data_grid
from holopy.core.process import normalize, subimage, bg_correct

from props.C16 import _welford, ACC  # the accumulator clause is shared with C16

IP = 'holopy.core.process.img_proc.'


def _setup(S):
    if S.sym:
        for m in (ip, meta, utils, hm):
            shim_np(S, m)
        shim_xarray_mean(S)


def _img(S, name, shape=(2, 2), spacing=0.1, pos=False, **kw):
    vals = np.empty(shape, dtype=object if S.sym else float)
    for i in range(shape[0]):
        for j in range(shape[1]):
            vals[i, j] = S.real(f'{name}{i}{j}', pos=pos)
    kw.setdefault('medium_index', 1.33)
    kw.setdefault('illum_wavelen', 0.66)
    kw.setdefault('illum_polarization', (1, 0))
    return data_grid(vals, spacing=spacing, **kw), vals


def _meta_kept(S, name, new, old):
    S.claim(name + '.attrs_keys', dict(new.attrs).keys() == dict(old.attrs).keys())
    S.claim(name + '.medium_index', new.attrs.get('medium_index') == old.attrs.get('medium_index'))
    S.claim(name + '.illum_wavelen', new.attrs.get('illum_wavelen') == old.attrs.get('illum_wavelen'))
    S.claim(name + '.name', new.name == old.name)
    S.claim(name + '.dims', tuple(new.dims) == tuple(old.dims))


def _normalize_body(S, shape):
    _setup(S)
    img, vals = _img(S, 'x', shape)
    total = sum(vals.reshape(-1))
    S.assume(total != 0)
    c = S.real('c', pos=True)
    out = normalize(img)
    S.observe('out', out.values)
    n = vals.size
    S.claim_eq('mean_is_one', sum(out.values.reshape(-1)), n)
    S.claim_eq('formula', out.values.reshape(shape), vals * n / total)
    again = normalize(out)
    S.claim_eq('idempotent', again.values, out.values)
    scaled, _ = _img(S, 'x', shape)
    scaled = meta.copy_metadata(img, img * c)
    S.claim_eq('scale_invariant', normalize(scaled).values, out.values)
    _meta_kept(S, 'meta', out, img)
    S.claim('coords_x', list(out.x.values) == list(img.x.values))
    S.claim('coords_y', list(out.y.values) == list(img.y.values))
    S.claim_eq('input_untouched', img.values.reshape(shape), vals)


@obligation('C18.normalize.2x2', functions=[IP + 'normalize', 'holopy.core.metadata.copy_metadata'],
            bounds='2x2 image, all pixel values symbolic with non-zero sum; symbolic rescaling factor c>0')
def normalize_2x2(S):
    _normalize_body(S, (2, 2))


@obligation('C18.normalize.2x3', functions=[IP + 'normalize', 'holopy.core.metadata.copy_metadata'],
            bounds='2x3 image, all pixel values symbolic with non-zero sum; symbolic rescaling factor c>0')
def normalize_2x3(S):
    _normalize_body(S, (2, 3))


@obligation('C18.normalize.3x4', functions=[IP + 'normalize', 'holopy.core.metadata.copy_metadata'], tier='thorough', wall_s=420,
            bounds='3x4 image, all pixel values symbolic with non-zero sum; symbolic rescaling factor c>0')
def normalize_3x4(S):
    _normalize_body(S, (3, 4))


def _bg_body(S, shape):
    _setup(S)
    raw, vr = _img(S, 'raw', shape)
    bg, vb = _img(S, 'bg', shape, noise_sd=0.07)
    df, vd = _img(S, 'df', shape)
    for i in np.ndindex(shape):
        S.assume(vb[i] - vd[i] > 0)
        S.assume(vb[i] > 0)
    # zero_filter: assumed identity on positive images (not decided, see module docstring)
    calls = []

    def zf(image):
        calls.append(image)
        return image
    S.patch(ip, 'zero_filter', zf, both=True)
    out = bg_correct(raw, bg, df)
    S.observe('out', out.values)
    S.claim_eq('formula', out.values.reshape(shape), (vr - vd) / (vb - vd))
    S.claim('zero_filter_applied_to_denominator', len(calls) == 1)
    S.claim_eq('zero_filter_argument', calls[0].values.reshape(shape), vb - vd)
    out2 = bg_correct(raw, bg)
    S.claim_eq('no_darkfield', out2.values.reshape(shape), vr / vb)
    same = bg_correct(bg, bg)
    S.claim_eq('self_division_is_one', same.values.reshape(shape), np.ones(shape))
    S.claim('noise_sd_inherited', out.attrs.get('noise_sd') == 0.07)
    _meta_kept(S, 'meta', out, raw)
    S.claim_eq('raw_untouched', raw.values.reshape(shape), vr)
    S.claim_eq('bg_untouched', bg.values.reshape(shape), vb)


@obligation('C18.bg_correct.2x2', functions=[IP + 'bg_correct', 'holopy.core.metadata.get_spacing',
                                             'holopy.core.metadata.update_metadata'],
            stubs=['zero_filter := identity (assumed on positive images)'],
            bounds='2x2 raw/background/dark images, all pixels symbolic, background-dark > 0')
def bg_2x2(S):
    _bg_body(S, (2, 2))


@obligation('C18.bg_correct.2x3', functions=[IP + 'bg_correct'], tier='thorough',
            stubs=['zero_filter := identity (assumed on positive images)'],
            bounds='2x3 raw/background/dark images, all pixels symbolic, background-dark > 0')
def bg_2x3(S):
    _bg_body(S, (2, 3))


@obligation('C18.bg_correct.mismatch', functions=[IP + 'bg_correct'],
            bounds='shape mismatch (2x2 vs 2x3) and spacing mismatch (0.1 vs 0.2) rejected with BadImage; '
                   'symbolic pixel values')
def bg_mismatch(S):
    _setup(S)
    S.patch(ip, 'zero_filter', lambda im: im, both=True)
    raw, _ = _img(S, 'raw', (2, 2))
    other, _ = _img(S, 'o', (2, 3))
    spaced, _ = _img(S, 's', (2, 2), spacing=0.2)
    for tag, bad in (('shape', other), ('spacing', spaced)):
        try:
            bg_correct(raw, bad)
            ok = False
        except BadImage:
            ok = True
        S.claim(tag + '_mismatch_rejected', ok)
    S.observe('v', raw.values)


def _subimage_body(S, shape, quick):
    _setup(S)
    img, vals = _img(S, 'p', shape, spacing=(0.1, 0.25))
    n = 0
    for sx in range(2, shape[0] + 1, 2):
        for sy in range(2, shape[1] + 1, 2):
            for cx in range(sx // 2, shape[0] - sx // 2 + 1):
                for cy in range(sy // 2, shape[1] - sy // 2 + 1):
                    n += 1
                    if quick and n % 3 != 1:
                        continue
                    sub = _sub(img, cx, cy, sx, sy)
                    if sx == sy:
                        # (z, x, y) image with a scalar shape: the documented call form
                        sub3 = subimage(img, (cx, cy), sx)
                        S.claim_eq(f'c{cx}_{cy}.s{sx}.3d', sub3.values.reshape(sx, sy), sub.values)
                    tag = f'c{cx}_{cy}.s{sx}x{sy}'
                    x0, y0 = cx - sx // 2, cy - sy // 2
                    S.claim(tag + '.shape', sub.sizes['x'] == sx and sub.sizes['y'] == sy)
                    S.claim_eq(tag + '.values', sub.values.reshape(sx, sy), vals[x0:x0 + sx, y0:y0 + sy])
                    S.claim(tag + '.x', np.allclose(sub.x.values, img.x.values[x0:x0 + sx]))
                    S.claim(tag + '.y', np.allclose(sub.y.values, img.y.values[y0:y0 + sy]))
                    _meta_kept(S, tag + '.meta', sub, img.isel(z=0))
    S.claim_eq('input_untouched', img.values.reshape(shape), vals)
    S.observe('v', vals)


def _sub(img, cx, cy, sx, sy):
    # public call form for an image with dims (z, x, y): one entry per dimension
    return subimage(img.isel(z=0), (cx, cy), (sx, sy))


@obligation('C18.subimage.4x5', functions=[IP + 'subimage', 'holopy.core.metadata.copy_metadata'],
            bounds='4x5 image with symbolic pixel values; every third (centre, even shape) combination that fits '
                   '(the discrete structure is enumerated: xarray indexers cannot be symbolic)')
def subimage_4x5(S):
    _subimage_body(S, (4, 5), quick=True)


@obligation('C18.subimage.5x6_all', functions=[IP + 'subimage', 'holopy.core.metadata.copy_metadata'], tier='thorough',
            bounds='5x6 image with symbolic pixel values; every (centre, even shape) combination that fits')
def subimage_5x6(S):
    _subimage_body(S, (5, 6), quick=False)


@obligation('C18.subimage.float_centre', functions=[IP + 'subimage'],
            bounds='4x4 image, float centres (1.6, 2.4), (2.49, 1.51): rounded to the nearest pixel')
def subimage_float(S):
    _setup(S)
    img, vals = _img(S, 'p', (4, 4))
    for (fx, fy), (cx, cy) in (((1.6, 2.4), (2, 2)), ((2.49, 1.51), (2, 2)), ((1.2, 2.9), (1, 3))):
        sub = subimage(img.isel(z=0), (fx, fy), 2)
        S.claim_eq(f'c{fx}_{fy}', sub.values, vals[cx - 1:cx + 1, cy - 1:cy + 1])
    S.observe('v', vals)


def _mk_acc(n, tier='quick'):
    @obligation(f'C18.accumulator.n{n}', functions=ACC, tier=tier, timeout_s=120,
                bounds=f'{n} images (1x2, symbolic pixels): running mean/std equal the batch values for the given, '
                       'rotated and reversed push orders; image metadata kept')
    def ob(S):
        _welford(S, n)
    return ob


for _n in (2, 3, 4):
    _mk_acc(_n)
_mk_acc(5, 'thorough')
_mk_acc(6, 'thorough')


@obligation('C18.normalize.two_channels', functions=[IP + 'normalize', 'holopy.core.metadata.copy_metadata'],
            bounds='2x2 image with two illumination channels (8 symbolic values, non-zero sum): the mean over ALL '
                   'values is 1, idempotent, metadata and the channel axis kept')
def normalize_channels(S):
    _setup(S)
    shape = (2, 2, 2)
    vals = np.empty(shape, dtype=object if S.sym else float)
    for idx in np.ndindex(shape):
        vals[idx] = S.real('x%d%d%d' % idx)
    img = data_grid(vals, spacing=0.1, medium_index=1.33, illum_wavelen=0.66, illum_polarization=(1, 0),
                    extra_dims={'illumination': ['red', 'green']})
    total = sum(vals.reshape(-1))
    S.assume(total != 0)
    out = normalize(img)
    S.observe('out', out.values)
    S.claim('dims', tuple(out.dims) == tuple(img.dims))
    ov = np.asarray(out.values).reshape(-1)
    S.claim_eq('mean_is_one', sum(ov), 8)
    S.claim_eq('formula', ov, np.asarray(img.values).reshape(-1) * 8 / total)
    S.claim_eq('idempotent', np.asarray(normalize(out).values).reshape(-1), ov)
    S.claim('channels_kept', list(out.illumination.values) == ['red', 'green'])
    _meta_kept(S, 'meta', out, img)


@obligation('C18.bg_correct.own_noise_kept', functions=[IP + 'bg_correct', 'holopy.core.metadata.update_metadata'],
            stubs=['zero_filter := identity (assumed on positive images)'],
            bounds='2x2 raw image carrying its own noise_sd (symbolic), background with a different noise_sd: the '
                   'result keeps the raw image\'s noise level; without one it takes the background\'s')
def bg_own_noise(S):
    _setup(S)
    shape = (2, 2)
    nz_raw, nz_bg = S.real('noise_raw', pos=True), S.real('noise_bg', pos=True)
    S.assume(nz_raw != nz_bg)
    raw, vr = _img(S, 'raw', shape, noise_sd=nz_raw)
    bare, vbare = _img(S, 'bare', shape)
    bg, vb = _img(S, 'bg', shape, pos=True, noise_sd=nz_bg)
    S.patch(ip, 'zero_filter', lambda image: image, both=True)
    out = bg_correct(raw, bg)
    S.observe('out', out.values)
    S.claim_eq('values', out.values.reshape(shape), vr / vb)
    S.claim_eq('own_noise_kept', out.attrs['noise_sd'], nz_raw)
    out2 = bg_correct(bare, bg)
    S.claim_eq('background_noise_inherited', out2.attrs['noise_sd'], nz_bg)
    S.claim_eq('raw_noise_untouched', raw.attrs['noise_sd'], nz_raw)
    S.claim_eq('bg_noise_untouched', bg.attrs['noise_sd'], nz_bg)
