"""C19 - coordinate conversions and Euler rotations are mutually consistent."""
import numpy as np

from symx.harness import obligation
from symx.shim import shim_np

LEVEL = 'model_checking'
ASSUMPTIONS = [
    "floats are modelled as reals (rounding, overflow, signed zero outside the claim)",
    "numpy object-array ufunc dispatch calls the same-named method of each element",
]

import holopy.core.math as hm
from holopy.scattering.scatterer import Sphere, Spheres, Scatterers, RigidCluster


def _shim(S):
    if S.sym:
        shim_np(S, hm)
        S.patch(hm, 'pi', S.pi)


def Rz(a, S):
    c, s = np.cos(a), np.sin(a)
    return np.array([[c, -s, 0], [s, c, 0], [0, 0, 1]], dtype=object)


def Ry(b, S):
    c, s = np.cos(b), np.sin(b)
    return np.array([[c, 0, s], [0, 1, 0], [-s, 0, c]], dtype=object)


def _angles(S):
    return S.angle('alpha'), S.angle('beta'), S.angle('gamma')


@obligation('C19.rot.orthogonal', functions=['holopy.core.math.rotation_matrix'],
            bounds='all real Euler angle triples (rational chart + antipodal chart)')
def rot_orthogonal(S):
    _shim(S)
    a, b, g = _angles(S)
    R = hm.rotation_matrix(a, b, g)
    S.observe('R', R)
    S.claim_eq('RRt', R.dot(R.T), np.eye(3))
    S.claim_eq('RtR', R.T.dot(R), np.eye(3))


@obligation('C19.rot.det', functions=['holopy.core.math.rotation_matrix'],
            bounds='all real Euler angle triples (rational chart + antipodal chart)')
def rot_det(S):
    _shim(S)
    a, b, g = _angles(S)
    R = hm.rotation_matrix(a, b, g)
    det = (R[0, 0] * (R[1, 1] * R[2, 2] - R[1, 2] * R[2, 1])
           - R[0, 1] * (R[1, 0] * R[2, 2] - R[1, 2] * R[2, 0])
           + R[0, 2] * (R[1, 0] * R[2, 1] - R[1, 1] * R[2, 0]))
    S.observe('det', det)
    S.claim_eq('det', det, 1)


@obligation('C19.rot.zyz', functions=['holopy.core.math.rotation_matrix'],
            bounds='all real Euler angle triples; reference Rz(gamma) Ry(beta) Rz(alpha) written independently')
def rot_zyz(S):
    _shim(S)
    a, b, g = _angles(S)
    R = hm.rotation_matrix(a, b, g)
    ref = Rz(g, S).dot(Ry(b, S)).dot(Rz(a, S))
    S.observe('R', R)
    S.claim_eq('R', R, ref)


@obligation('C19.rot.degrees', functions=['holopy.core.math.rotation_matrix'],
            bounds='all real angle triples given in degrees')
def rot_degrees(S):
    _shim(S)
    a, b, g = S.real('alpha_deg'), S.real('beta_deg'), S.real('gamma_deg')
    R = hm.rotation_matrix(a, b, g, radians=False)
    k = S.pi / 180
    ref = Rz(g * k, S).dot(Ry(b * k, S)).dot(Rz(a * k, S))
    S.observe('R', R)
    S.claim_eq('R', R, ref)


@obligation('C19.rotate_points.isometry',
            functions=['holopy.core.math.rotate_points', 'holopy.core.math.rotation_matrix'],
            bounds='two symbolic points, all angle triples; 1-D point and (2,3) array call forms')
def rotate_points_isometry(S):
    _shim(S)
    a, b, g = _angles(S)
    p = [S.real('p%d' % i) for i in range(3)]
    q = [S.real('q%d' % i) for i in range(3)]
    both = hm.rotate_points(np.array([p, q], dtype=object), a, b, g)
    single = hm.rotate_points(p, a, b, g)
    S.observe('rot', both)
    S.claim_eq('array_vs_single', both[0], single)
    d0 = sum((p[i] - q[i]) ** 2 for i in range(3))
    d1 = sum((both[0][i] - both[1][i]) ** 2 for i in range(3))
    S.claim_eq('dist2', d1, d0)
    S.claim_eq('norm2', sum(single[i] ** 2 for i in range(3)), sum(p[i] ** 2 for i in range(3)))
    # equals the matrix product with the zyz reference
    ref = Rz(g, S).dot(Ry(b, S)).dot(Rz(a, S)).dot(np.array(p, dtype=object))
    S.claim_eq('matches_zyz', single, ref)


def _pt(S, names, **kw):
    return [np.array([S.real(n, **kw.get(n, {}))], dtype=object) if S.sym
            else np.array([S.real(n, **kw.get(n, {}))]) for n in names]


def _wrap(S, vals):
    return [np.array([v], dtype=object) if S.sym else np.array([v]) for v in vals]


COORD_FUNCS = ['holopy.core.math.transform_cartesian_to_spherical',
               'holopy.core.math.transform_spherical_to_cartesian',
               'holopy.core.math.transform_cartesian_to_cylindrical',
               'holopy.core.math.transform_cylindrical_to_cartesian',
               'holopy.core.math.transform_cylindrical_to_spherical',
               'holopy.core.math.transform_spherical_to_cylindrical',
               'holopy.core.math.find_transformation_function']


@obligation('C19.coords.cart_sph_cart', functions=COORD_FUNCS, angle_mode='atoms',
            bounds='one symbolic Cartesian point (all reals, including axes and origin)')
def cart_sph_cart(S):
    _shim(S)
    xyz = _pt(S, 'xyz')
    f = hm.find_transformation_function('cartesian', 'spherical')
    finv = hm.find_transformation_function('spherical', 'cartesian')
    rtp = f(xyz)
    S.observe('rtp', rtp)
    back = finv(rtp)
    S.claim_eq('roundtrip', back, np.array(xyz))
    r, th, ph = rtp[0][0], rtp[1][0], rtp[2][0]
    S.claim_eq('norm', r * r, xyz[0][0] ** 2 + xyz[1][0] ** 2 + xyz[2][0] ** 2)
    S.claim('r>=0', r >= 0)
    S.claim('theta_range', (th >= 0) & (th <= S.pi) if S.sym else (0 <= th <= S.pi))
    S.claim('phi_range', (ph >= 0) & (ph < 2 * S.pi) if S.sym else (0 <= ph <= 2 * S.pi))


@obligation('C19.coords.sph_cart_sph', functions=COORD_FUNCS, angle_mode='atoms', timeout_s=120,
            bounds='one symbolic spherical point with r>0, 0<theta<pi, 0<=phi<2pi (away from the singularities)')
def sph_cart_sph(S):
    _shim(S)
    r = S.real('r', pos=True)
    th = S.angle('theta', 0, 1)
    ph = S.angle('phi', 0, 2)
    S.assume(th > 0)
    S.assume(th < S.pi)
    S.assume(ph < 2 * S.pi)
    f = hm.find_transformation_function('spherical', 'cartesian')
    finv = hm.find_transformation_function('cartesian', 'spherical')
    xyz = f(_wrap(S, [r, th, ph]))
    S.observe('xyz', xyz)
    back = finv(xyz)
    S.observe('back', back)
    S.claim_eq('r', back[0][0], r)
    S.claim_eq('theta', back[1][0], th)
    S.claim_eq('phi', back[2][0], ph)


@obligation('C19.coords.cart_cyl_cart', functions=COORD_FUNCS, angle_mode='atoms',
            bounds='one symbolic Cartesian point (all reals); z passed as array and as scalar')
def cart_cyl_cart(S):
    _shim(S)
    xyz = _pt(S, 'xyz')
    f = hm.find_transformation_function('cartesian', 'cylindrical')
    finv = hm.find_transformation_function('cylindrical', 'cartesian')
    rpz = f(xyz)
    S.observe('rpz', rpz)
    back = finv(rpz)
    S.claim_eq('roundtrip', back, np.array(xyz))
    rho, ph, z = rpz[0][0], rpz[1][0], rpz[2][0]
    S.claim_eq('rho2', rho * rho, xyz[0][0] ** 2 + xyz[1][0] ** 2)
    S.claim('rho>=0', rho >= 0)
    S.claim('phi_range', (ph >= 0) & (ph < 2 * S.pi) if S.sym else (0 <= ph <= 2 * S.pi))
    S.claim_eq('z', z, xyz[2][0])
    # scalar z broadcast
    rpz2 = f([xyz[0], xyz[1], xyz[2][0]])
    S.claim_eq('scalar_z', rpz2, rpz)
    back2 = finv([rpz[0], rpz[1], rpz[2][0]])
    S.claim_eq('scalar_z_back', back2, back)


@obligation('C19.coords.cyl_cart_cyl', functions=COORD_FUNCS, angle_mode='atoms', timeout_s=120,
            bounds='one symbolic cylindrical point with rho>0, 0<=phi<2pi')
def cyl_cart_cyl(S):
    _shim(S)
    rho = S.real('rho', pos=True)
    ph = S.angle('phi', 0, 2)
    z = S.real('z')
    S.assume(ph < 2 * S.pi)
    f = hm.find_transformation_function('cylindrical', 'cartesian')
    finv = hm.find_transformation_function('cartesian', 'cylindrical')
    xyz = f(_wrap(S, [rho, ph, z]))
    S.observe('xyz', xyz)
    back = finv(xyz)
    S.claim_eq('rho', back[0][0], rho)
    S.claim_eq('phi', back[1][0], ph)
    S.claim_eq('z', back[2][0], z)


@obligation('C19.coords.cyl_sph_cyl', functions=COORD_FUNCS, angle_mode='atoms', timeout_s=120,
            bounds='one symbolic cylindrical point with rho>0 (any phi, z), and one spherical point '
                   'with r>0, 0<theta<pi')
def cyl_sph_cyl(S):
    _shim(S)
    rho = S.real('rho', pos=True)
    ph = S.angle('phi', 0, 2)
    z = S.real('z')
    f = hm.find_transformation_function('cylindrical', 'spherical')
    finv = hm.find_transformation_function('spherical', 'cylindrical')
    rtp = f(_wrap(S, [rho, ph, z]))
    S.observe('rtp', rtp)
    back = finv(rtp)
    S.claim_eq('rho', back[0][0], rho)
    S.claim_eq('phi', back[1][0], ph)
    S.claim_eq('z', back[2][0], z)
    S.claim_eq('norm', rtp[0][0] ** 2, rho * rho + z * z)
    S.claim('theta_range', (rtp[1][0] >= 0) & (rtp[1][0] <= S.pi) if S.sym else 0 <= rtp[1][0] <= S.pi)


@obligation('C19.coords.sph_cyl_sph', functions=COORD_FUNCS, angle_mode='atoms', timeout_s=120,
            bounds='one symbolic spherical point with r>0, 0<theta<pi, any phi')
def sph_cyl_sph(S):
    _shim(S)
    r = S.real('r', pos=True)
    th = S.angle('theta', 0, 1)
    ph = S.angle('phi', 0, 2)
    S.assume(th > 0)
    S.assume(th < S.pi)
    f = hm.find_transformation_function('spherical', 'cylindrical')
    finv = hm.find_transformation_function('cylindrical', 'spherical')
    rpz = f(_wrap(S, [r, th, ph]))
    S.observe('rpz', rpz)
    back = finv(rpz)
    S.claim_eq('r', back[0][0], r)
    S.claim_eq('theta', back[1][0], th)
    S.claim_eq('phi', back[2][0], ph)


@obligation('C19.coords.compose', functions=COORD_FUNCS, angle_mode='atoms', timeout_s=120,
            bounds='one symbolic Cartesian point: cart->cyl->sph equals cart->sph; '
                   'sph->cyl->cart equals sph->cart')
def compose(S):
    _shim(S)
    xyz = _pt(S, 'xyz')
    c2s = hm.find_transformation_function('cartesian', 'spherical')
    c2c = hm.find_transformation_function('cartesian', 'cylindrical')
    y2s = hm.find_transformation_function('cylindrical', 'spherical')
    direct = c2s(xyz)
    via = y2s(c2c(xyz))
    S.observe('direct', direct)
    S.claim_eq('cart_cyl_sph', via, direct)
    s2c = hm.find_transformation_function('spherical', 'cartesian')
    s2y = hm.find_transformation_function('spherical', 'cylindrical')
    y2c = hm.find_transformation_function('cylindrical', 'cartesian')
    S.claim_eq('sph_cyl_cart', y2c(s2y(direct)), s2c(direct))
    same = hm.find_transformation_function('cartesian', 'cartesian')
    S.claim_eq('identity', same(xyz), np.array(xyz))


def _spheres(S, n):
    members = []
    for i in range(n):
        c = [S.real(f'c{i}{ax}') for ax in 'xyz']
        members.append(Sphere(n=1.5, r=0.5, center=c))
    return members


def _centers(sc):
    return [list(s.center) for s in sc.scatterers]


def _d2(p, q):
    return sum((p[i] - q[i]) ** 2 for i in range(3))


def _not3(S, vals):
    # `len(ensure_array(v) == 3)` in translated()/rotated() compares every
    # component with 3 (both outcomes behave identically); excluding the value 3
    # avoids 2^3 identical forks.  The excluded points are covered by
    # C19.composite.vector_forms_at_3.
    for v in vals:
        S.assume(v != 3, "component != 3 (fork cut, see C19.composite.vector_forms_at_3)")


def _composite_body(S, n, cls):
    _shim(S)
    import holopy.scattering.scatterer.composite as comp
    import holopy.scattering.scatterer.spherecluster as sc_mod
    if S.sym:
        shim_np(S, comp)
        shim_np(S, sc_mod)
    import warnings
    members = _spheres(S, n)
    with warnings.catch_warnings():
        warnings.simplefilter('ignore')
        coll = cls(members) if cls is Scatterers else Spheres(members, warn=False)
        c0 = _centers(coll)
        a, b, g = _angles(S)
        t = [S.real('t%d' % i) for i in range(3)]
        _not3(S, t)
        rot = coll.rotated(a, b, g)
        tr = coll.translated(t)
        tr3 = coll.translated(t[0], t[1], t[2])
    cr = _centers(rot)
    ct = _centers(tr)
    S.observe('rot_centers', np.array(cr, dtype=object if S.sym else float))
    for i in range(n):
        for j in range(i + 1, n):
            S.claim_eq(f'rot_dist[{i},{j}]', _d2(cr[i], cr[j]), _d2(c0[i], c0[j]))
            S.claim_eq(f'tr_dist[{i},{j}]', _d2(ct[i], ct[j]), _d2(c0[i], c0[j]))
    for ax in range(3):
        S.claim_eq(f'rot_centroid[{ax}]', sum(cr[i][ax] for i in range(n)),
                   sum(c0[i][ax] for i in range(n)))
        for i in range(n):
            S.claim_eq(f'tr_shift[{i},{ax}]', ct[i][ax], c0[i][ax] + t[ax])
    S.claim_eq('tr3', np.array(_centers(tr3), dtype=object if S.sym else float),
               np.array(ct, dtype=object if S.sym else float))
    # inputs unmodified
    S.claim_eq('input_unmodified', np.array(_centers(coll), dtype=object if S.sym else float),
               np.array(c0, dtype=object if S.sym else float))
    S.claim('members_not_shared', all(x is not y for x, y in zip(rot.scatterers, coll.scatterers)))
    # rotation acts as R about the centroid
    R = hm.rotation_matrix(a, b, g)
    com = [sum(c0[i][ax] for i in range(n)) / n for ax in range(3)]
    for i in range(n):
        rel = np.array([c0[i][ax] - com[ax] for ax in range(3)], dtype=object if S.sym else float)
        exp = R.dot(rel)
        for ax in range(3):
            S.claim_eq(f'rot_is_R[{i},{ax}]', cr[i][ax], com[ax] + exp[ax])


COMP_FUNCS = ['holopy.scattering.scatterer.composite.Scatterers.rotated',
              'holopy.scattering.scatterer.composite.Scatterers.translated',
              'holopy.scattering.scatterer.scatterer.Scatterer.translated',
              'holopy.scattering.scatterer.sphere.Sphere.rotated',
              'holopy.core.math.rotate_points', 'holopy.core.math.rotation_matrix']


@obligation('C19.composite.spheres2', functions=COMP_FUNCS,
            bounds='Spheres of 2 members, symbolic centres, angles and translation')
def composite2(S):
    _composite_body(S, 2, Spheres)


@obligation('C19.composite.scatterers3', functions=COMP_FUNCS,
            bounds='Scatterers of 3 members, symbolic centres, angles and translation')
def composite3(S):
    _composite_body(S, 3, Scatterers)


@obligation('C19.composite.spheres4', functions=COMP_FUNCS, tier='thorough', timeout_s=240,
            bounds='Spheres of 4 members, symbolic centres, angles and translation')
def composite4(S):
    _composite_body(S, 4, Spheres)


@obligation('C19.rigidcluster', functions=COMP_FUNCS + [
    'holopy.scattering.scatterer.spherecluster.RigidCluster.scatterers',
    'holopy.scattering.scatterer.spherecluster.RigidCluster.from_parameters'],
            bounds='RigidCluster over Spheres of 2 members; symbolic centres, rotation, translation')
def rigidcluster(S):
    _shim(S)
    import holopy.scattering.scatterer.composite as comp
    import holopy.scattering.scatterer.spherecluster as sc_mod
    if S.sym:
        shim_np(S, comp)
        shim_np(S, sc_mod)
    members = _spheres(S, 2)
    base = Spheres(members, warn=False)
    a, b, g = _angles(S)
    t = [S.real('t%d' % i) for i in range(3)]
    _not3(S, t + [a, b, g])
    rc = RigidCluster(base, translation=tuple(t), rotation=(a, b, g))
    got = [list(s.center) for s in rc.scatterers]
    ref = _centers(base.rotated(a, b, g).translated(t))
    S.observe('centers', np.array(got, dtype=object if S.sym else float))
    S.claim_eq('scatterers', np.array(got, dtype=object if S.sym else float),
               np.array(ref, dtype=object if S.sym else float))
    c0 = _centers(base)
    S.claim_eq('dist', _d2(got[0], got[1]), _d2(c0[0], c0[1]))
    for ax in range(3):
        S.claim_eq(f'centroid[{ax}]', got[0][ax] + got[1][ax], c0[0][ax] + c0[1][ax] + 2 * t[ax])
    # from_parameters of its own parameters = equivalent rotated+translated collection
    rebuilt = rc.from_parameters(rc.parameters)
    S.claim_eq('from_parameters', np.array(_centers(rebuilt), dtype=object if S.sym else float),
               np.array(ref, dtype=object if S.sym else float))


@obligation('C19.composite.vector_forms_at_3', functions=COMP_FUNCS,
            bounds='Spheres of 2 members with symbolic centres; translation vector and rotation tuple '
                   'whose components are exactly 3 (the points excluded by the fork cut elsewhere)')
def vector_forms_at_3(S):
    _shim(S)
    import holopy.scattering.scatterer.composite as comp
    import holopy.scattering.scatterer.spherecluster as sc_mod
    if S.sym:
        shim_np(S, comp)
        shim_np(S, sc_mod)
    members = _spheres(S, 2)
    coll = Spheres(members, warn=False)
    c0 = _centers(coll)
    w = S.real('w')
    for t in ([3, 3, 3], [3, w, 3], [w, 3, 3], [3, 3, w]):
        tr = _centers(coll.translated(t))
        for i in range(2):
            for ax in range(3):
                S.claim_eq(f'tr{t}[{i},{ax}]'.replace(' ', ''), tr[i][ax], c0[i][ax] + t[ax])
    rot = _centers(coll.rotated((3, 3, 3)))
    rot3 = _centers(coll.rotated(3, 3, 3))
    S.observe('rot', np.array(rot, dtype=object if S.sym else float))
    S.claim_eq('rot_tuple_vs_args', np.array(rot, dtype=object if S.sym else float),
               np.array(rot3, dtype=object if S.sym else float))
    # (no isometry claim here: with the concrete angle 3 NumPy evaluates sin/cos in
    # floating point, so R is orthogonal only up to rounding - outside the real-number claim)
