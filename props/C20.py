"""C20 - scatterer containment, layers and overlaps match the analytic shapes."""
import warnings

import numpy as np

from symx.harness import obligation
from symx.shim import shim_np

LEVEL = 'model_checking'
ASSUMPTIONS = [
    "floats are modelled as reals (points within rounding distance of a surface are decided in R)",
    "refractive indices are concrete numbers; centres, radii, semi-axes, thicknesses and query points are symbolic",
]

import holopy.scattering.scatterer.scatterer as scat_mod
import holopy.scattering.scatterer.sphere as sphere_mod
import holopy.scattering.scatterer.ellipsoid as ell_mod
import holopy.scattering.scatterer.csg as csg_mod
import holopy.scattering.scatterer.composite as comp_mod
import holopy.scattering.scatterer.spherecluster as sc_mod
import holopy.core.math as hm
import holopy.inference.model as model_mod
from holopy.scattering.scatterer import (Sphere, LayeredSphere, Ellipsoid, Spheres, Union,
                                         Difference, Intersection, Scatterers)
from holopy.scattering.errors import InvalidScatterer, OverlapWarning


def _shim(S):
    if S.sym:
        for m in (scat_mod, sphere_mod, ell_mod, csg_mod, comp_mod, sc_mod, hm, model_mod):
            shim_np(S, m)


def _vec(S, name, **kw):
    return [S.real(f'{name}{ax}', **kw) for ax in 'xyz']


def _d2(p, q):
    return sum((p[i] - q[i]) ** 2 for i in range(3))


def _arr(S, rows):
    return np.array(rows, dtype=object if S.sym else float)


def _in_bounds(S, name, s, p):
    b = s.bounds
    for ax in range(3):
        S.claim_le(f'{name}.lo[{ax}]', b[ax][0], p[ax])
        S.claim_le(f'{name}.hi[{ax}]', p[ax], b[ax][1])


SPH = ['holopy.scattering.scatterer.scatterer.Scatterer.contains',
       'holopy.scattering.scatterer.scatterer.Scatterer.in_domain',
       'holopy.scattering.scatterer.scatterer.Scatterer.index_at',
       'holopy.scattering.scatterer.scatterer.Scatterer.bounds',
       'holopy.scattering.scatterer.scatterer.Scatterer.translated',
       'holopy.scattering.scatterer.scatterer.Indicators.__call__',
       'holopy.scattering.scatterer.sphere.Sphere.__init__',
       'holopy.scattering.scatterer.sphere.Sphere.indicators']


@obligation('C20.sphere.contains', functions=SPH,
            bounds='one sphere (symbolic centre, radius>0), two symbolic query points passed as one (2,3) array')
def sphere_contains(S):
    _shim(S)
    c = _vec(S, 'c')
    r = S.real('r', pos=True)
    p, q = _vec(S, 'p'), _vec(S, 'q')
    s = Sphere(n=1.59, r=r, center=c)
    got = s.contains(_arr(S, [p, q]))
    S.observe('contains', got)
    S.claim('shape', got.shape == (2,))
    S.claim_iff('p', got[0], _d2(p, c) < r * r)
    S.claim_iff('q', got[1], _d2(q, c) < r * r)
    single = s.contains(p)
    S.claim('single_shape', single.shape == (1,))
    S.claim('single_agrees', bool(single[0]) == bool(got[0]))
    dom = s.in_domain(p)
    S.claim('domain', int(dom[0]) == (1 if got[0] else 0))
    idx = s.index_at(p, background=1.33)
    S.claim_eq('index', idx[0], 1.59 if got[0] else 1.33)
    if got[0]:
        _in_bounds(S, 'bounds', s, p)


@obligation('C20.sphere.translated', functions=SPH,
            bounds='one sphere, symbolic translation vector (components != 3, see C19 fork cut), one query point')
def sphere_translated(S):
    _shim(S)
    c = _vec(S, 'c')
    r = S.real('r', pos=True)
    p = _vec(S, 'p')
    t = _vec(S, 't')
    for v in t:
        S.assume(v != 3, "translation component != 3 (fork cut: len(ensure_array(t)==3))")
    s = Sphere(n=1.59, r=r, center=c)
    moved = s.translated(t)
    moved3 = s.translated(t[0], t[1], t[2])
    a = moved.contains(p)[0]
    b = s.contains([p[i] - t[i] for i in range(3)])[0]
    S.observe('moved', a)
    S.claim('translated_region', bool(a) == bool(b))
    S.claim_iff('analytic', a, _d2(p, [c[i] + t[i] for i in range(3)]) < r * r)
    S.claim('three_arg_form', bool(moved3.contains(p)[0]) == bool(a))
    S.claim_eq('original_untouched', _arr(S, list(s.center)), _arr(S, c))


@obligation('C20.sphere.rejects', functions=['holopy.scattering.scatterer.sphere.Sphere.__init__',
                                             'holopy.scattering.scatterer.scatterer.CenteredScatterer.__init__'],
            bounds='symbolic radius of either sign; scalar radius and 2-layer radius list; malformed centres')
def sphere_rejects(S):
    _shim(S)
    r = S.real('r')
    r2 = S.real('r2')
    try:
        Sphere(n=1.5, r=r, center=(0, 0, 0))
        raised = False
    except InvalidScatterer:
        raised = True
    S.observe('raised', raised)
    S.claim_iff('negative_radius_rejected', raised, r < 0)
    try:
        Sphere(n=[1.5, 1.4], r=[r, r2], center=(0, 0, 0))
        raised2 = False
    except InvalidScatterer:
        raised2 = True
    S.claim_iff('negative_layer_rejected', raised2, (r < 0) | (r2 < 0))
    for bad in (1.0, (1.0, 2.0), (1.0, 2.0, 3.0, 4.0), [r]):
        try:
            Sphere(n=1.5, r=1.0, center=bad)
            ok = False
        except InvalidScatterer:
            ok = True
        S.claim(f'bad_center_{len(bad) if hasattr(bad, "__len__") else "scalar"}', ok)
    try:
        Sphere(n=1.5, r=1.0, center=r)
        ok = False
    except InvalidScatterer:
        ok = True
    S.claim('symbolic_scalar_center_rejected', ok)


def _layered(S, nlayers, ordered, by_thickness=False):
    _shim(S)
    c = _vec(S, 'c')
    p = _vec(S, 'p')
    ns = [1.2 + 0.1 * i for i in range(nlayers)]
    if by_thickness:
        ts = [S.real(f't{i}', pos=True) for i in range(nlayers)]
        s = LayeredSphere(n=ns, t=ts, center=c)
        rs = []
        acc = 0
        for t in ts:
            acc = acc + t
            rs.append(acc)
        got_r = s.r
        S.claim_eq('radii_are_cumulative_thickness', got_r, _arr(S, rs))
    else:
        rs = [S.real(f'r{i}', pos=True) for i in range(nlayers)]
        if ordered:
            for i in range(nlayers - 1):
                S.assume(rs[i] < rs[i + 1])
        s = Sphere(n=ns, r=rs, center=c)
    dom = int(s.in_domain(p)[0])
    S.observe('domain', dom)
    d2 = _d2(p, c)
    # analytic: first layer (in list order) whose radius exceeds the distance
    for i in range(nlayers):
        inside_i = d2 < rs[i] * rs[i]
        if dom == i + 1:
            S.claim(f'in_layer_{i}', inside_i)
        elif dom == 0 or dom > i + 1:
            S.claim_iff(f'not_in_earlier_layer_{i}', False, inside_i)
    S.claim('domain_range', 0 <= dom <= nlayers)
    idx = s.index_at(p, background=1.0)
    S.claim_eq('index', idx[0], ns[dom - 1] if dom else 1.0)
    S.claim('contains', bool(s.contains(p)[0]) == (dom > 0))
    if dom:
        _in_bounds(S, 'bounds', s, p)


LAY = SPH + ['holopy.scattering.scatterer.sphere.LayeredSphere.r']


@obligation('C20.layered.2_unordered', functions=LAY, max_paths=128,
            bounds='2 layers, radii symbolic positive in any order, one query point')
def layered2(S):
    _layered(S, 2, ordered=False)


@obligation('C20.layered.3_ordered', functions=LAY, max_paths=128,
            bounds='3 layers r0<r1<r2 symbolic, one query point')
def layered3(S):
    _layered(S, 3, ordered=True)


@obligation('C20.layered.4_ordered', functions=LAY, tier='thorough', max_paths=256,
            bounds='4 layers r0<..<r3 symbolic, one query point')
def layered4(S):
    _layered(S, 4, ordered=True)


@obligation('C20.layered.thickness3', functions=LAY, max_paths=128,
            bounds='LayeredSphere with 3 symbolic positive thicknesses, one query point')
def layered_t3(S):
    _layered(S, 3, ordered=True, by_thickness=True)


@obligation('C20.layered.thickness4', functions=LAY, tier='thorough', max_paths=256,
            bounds='LayeredSphere with 4 symbolic positive thicknesses, one query point')
def layered_t4(S):
    _layered(S, 4, ordered=True, by_thickness=True)


ELL = ['holopy.scattering.scatterer.ellipsoid.Ellipsoid.__init__',
       'holopy.scattering.scatterer.ellipsoid.Ellipsoid.indicators'] + SPH[:6]


@obligation('C20.ellipsoid', functions=ELL,
            bounds='one ellipsoid, symbolic positive semi-axes and centre, one query point; malformed r rejected')
def ellipsoid(S):
    _shim(S)
    c = _vec(S, 'c')
    r = _vec(S, 'r', pos=True)
    p = _vec(S, 'p')
    e = Ellipsoid(n=1.5, r=r, center=c)
    got = e.contains(p)[0]
    S.observe('contains', got)
    S.claim_iff('analytic', got, sum(((p[i] - c[i]) / r[i]) ** 2 for i in range(3)) < 1)
    if got:
        _in_bounds(S, 'bounds', e, p)
    t = _vec(S, 't')
    for v in t:
        S.assume(v != 3, "translation component != 3 (fork cut)")
    moved = e.translated(t)
    S.claim('translated', bool(moved.contains(p)[0]) == bool(e.contains([p[i] - t[i] for i in range(3)])[0]))
    for bad in (1.0, (1.0, 2.0)):
        try:
            Ellipsoid(n=1.5, r=bad, center=(0, 0, 0))
            ok = False
        except InvalidScatterer:
            ok = True
        S.claim(f'bad_r_{bad}', ok)


CSG = ['holopy.scattering.scatterer.csg.CsgScatterer.__init__', 'holopy.scattering.scatterer.csg.Union.in_domain',
       'holopy.scattering.scatterer.csg.Difference.in_domain',
       'holopy.scattering.scatterer.csg.Intersection.in_domain',
       'holopy.scattering.scatterer.csg.CsgScatterer.bounds'] + SPH[:6]


def _csg(S, kind):
    _shim(S)
    c1 = _vec(S, 'a')
    p = _vec(S, 'p')
    if kind == 'sphere-sphere':
        r1 = S.real('ra', pos=True)
        c2 = _vec(S, 'b')
        r2 = S.real('rb', pos=True)
        s1 = Sphere(n=1.5, r=r1, center=c1)
        s2 = Sphere(n=1.5, r=r2, center=c2)
        in1 = _d2(p, c1) < r1 * r1
        in2 = _d2(p, c2) < r2 * r2
    else:
        r1 = S.real('ra', pos=True)
        c2 = _vec(S, 'b')
        ax = _vec(S, 'e', pos=True)
        s1 = Sphere(n=1.5, r=r1, center=c1)
        s2 = Ellipsoid(n=1.5, r=ax, center=c2)
        in1 = _d2(p, c1) < r1 * r1
        in2 = sum(((p[i] - c2[i]) / ax[i]) ** 2 for i in range(3)) < 1
    u = bool(Union(s1, s2).contains(p)[0])
    d = bool(Difference(s1, s2).contains(p)[0])
    n = bool(Intersection(s1, s2).contains(p)[0])
    d_rev = bool(Difference(s2, s1).contains(p)[0])
    S.observe('u', u)
    S.observe('d', d)
    S.observe('n', n)
    S.claim_iff('union', u, in1 | in2)
    S.claim_iff('difference', d, in1 & ~in2 if S.sym else (in1 and not in2))
    S.claim_iff('intersection', n, in1 & in2)
    S.claim_iff('difference_reversed', d_rev, in2 & ~in1 if S.sym else (in2 and not in1))
    return s1, s2, p, u, d, n


@obligation('C20.csg.sphere_sphere', functions=CSG,
            bounds='two spheres (symbolic centres and radii), one query point; Union/Difference/Intersection')
def csg_ss(S):
    _csg(S, 'sphere-sphere')


@obligation('C20.csg.sphere_ellipsoid', functions=CSG,
            bounds='sphere and ellipsoid (all geometry symbolic), one query point; Union/Difference/Intersection')
def csg_se(S):
    _csg(S, 'sphere-ellipsoid')


@obligation('C20.csg.bounds', functions=CSG, max_paths=256, timeout_s=60,
            bounds='two spheres with symbolic x-geometry (centres differ by a symbolic dx, concrete dy,dz; '
                   'rb = ra + 1/2), one query point: contained points lie inside the reported bounds')
def csg_bounds(S):
    _shim(S)
    c1 = _vec(S, 'a')
    p = _vec(S, 'p')
    r1 = S.real('ra', pos=True)
    dx = S.real('dx')
    c2 = [c1[0] + dx, c1[1] + 0.25, c1[2] - 0.5]
    r2 = r1 + 0.5
    s1 = Sphere(n=1.5, r=r1, center=c1)
    s2 = Sphere(n=1.5, r=r2, center=c2)
    for name, cls in (('union', Union), ('difference', Difference), ('intersection', Intersection)):
        obj = cls(s1, s2)
        if bool(obj.contains(p)[0]):
            _in_bounds(S, name, obj, p)
        else:
            S.claim(name + '.outside', True)
    S.observe('u', bool(Union(s1, s2).contains(p)[0]))


@obligation('C20.csg.rejects', functions=CSG[:1],
            bounds='different indices and multi-domain members rejected (concrete structure)')
def csg_rejects(S):
    _shim(S)
    r = S.real('r', pos=True)
    s1 = Sphere(n=1.5, r=r, center=(0, 0, 0))
    for bad in (Sphere(n=1.6, r=r, center=(1, 0, 0)), Sphere(n=[1.5, 1.6], r=[r, r + 1], center=(1, 0, 0))):
        try:
            Union(s1, bad)
            ok = False
        except InvalidScatterer:
            ok = True
        S.claim('rejected', ok)
    S.observe('r', r)


OVL = ['holopy.scattering.scatterer.spherecluster.Spheres.__init__',
       'holopy.scattering.scatterer.spherecluster.Spheres.overlaps',
       'holopy.scattering.scatterer.spherecluster.Spheres.largest_overlap',
       'holopy.scattering.scatterer.spherecluster.Spheres.add',
       'holopy.core.math.cartesian_distance', 'holopy.inference.model.LimitOverlaps.check']


def _overlaps(S, n, layered_first=False, limit=True):
    _shim(S)
    centers = [_vec(S, f'c{i}') for i in range(n)]
    radii = [S.real(f'r{i}', pos=True) for i in range(n)]
    members = []
    outer = []
    for i in range(n):
        if i == 0 and layered_first:
            rin = S.real('r0_inner', pos=True)
            members.append(Sphere(n=[1.5, 1.4], r=[rin, radii[0]], center=centers[0]))
            # outer radius = max of the two
            outer.append(None)
        else:
            members.append(Sphere(n=1.5, r=radii[i], center=centers[i]))
            outer.append(radii[i])
    if layered_first:
        rin_gt = bool(rin > radii[0])
        outer[0] = rin if rin_gt else radii[0]
    with warnings.catch_warnings(record=True) as w:
        warnings.simplefilter('always')
        sp = Spheres(members, warn=True)
    warned = any(issubclass(x.category, OverlapWarning) for x in w)
    with warnings.catch_warnings(record=True) as w2:
        warnings.simplefilter('always')
        Spheres(members, warn=False)
    S.claim('no_warning_when_disabled', not any(issubclass(x.category, OverlapWarning) for x in w2))
    ov = sp.overlaps
    S.observe('n_overlaps', len(ov))
    S.claim('warning_iff_overlap', warned == (len(ov) > 0))
    expected_order = [(i, j) for i in range(n) for j in range(i + 1, n)]
    S.claim('pairs_in_index_order', ov == [pq for pq in expected_order if pq in ov])
    gaps = {}
    for (i, j) in expected_order:
        R = outer[i] + outer[j]
        d2 = _d2(centers[i], centers[j])
        S.claim_iff(f'overlap[{i},{j}]', (i, j) in ov, d2 < R * R)
        gaps[(i, j)] = R - np.sqrt(d2)
    largest = sp.largest_overlap()
    S.observe('largest', largest)
    S.claim_ge('largest>=0', largest, 0)
    anyeq = (largest == 0)
    for pq, gp in gaps.items():
        S.claim_ge(f'largest>=gap{list(pq)}', largest, gp)
        anyeq = anyeq | (largest == gp) if S.sym else (anyeq or abs(largest - gp) < 1e-12)
    S.claim('largest_is_attained', anyeq)
    if limit:
        frac = S.real('fraction', lo=0)
        ok = bool(model_mod.LimitOverlaps(frac).check(sp))
        rmin = outer[0]
        # analytic: largest <= 2 * min(r) * fraction  (uniform spheres only)
        conds = None
        for rr in outer:
            cnd = largest <= 2 * rr * frac
            conds = cnd if conds is None else (conds & cnd if S.sym else (conds and cnd))
        # largest <= 2*min(r)*f  <=>  for all i: largest <= 2*r_i*f   (f >= 0)
        S.claim_iff('limit_overlaps', ok, conds)


@obligation('C20.spheres.overlaps2', functions=OVL, max_paths=64,
            bounds='2 uniform spheres, all geometry symbolic, symbolic LimitOverlaps fraction >= 0')
def overlaps2(S):
    _overlaps(S, 2)


@obligation('C20.spheres.overlaps3', functions=OVL, max_paths=400, wall_s=1500, cost=5,
            bounds='3 uniform spheres, all geometry symbolic')
def overlaps3(S):
    _overlaps(S, 3, limit=False)


@obligation('C20.spheres.overlaps2_layered', functions=OVL, max_paths=128,
            bounds='2 spheres, the first with two layers whose radii are symbolic in any order '
                   '(outer radius = the larger)')
def overlaps2_layered(S):
    _overlaps(S, 2, layered_first=True, limit=False)


@obligation('C20.spheres.overlaps4', functions=OVL, tier='thorough', max_paths=3000, wall_s=1200, cost=20,
            bounds='4 uniform spheres, all geometry symbolic')
def overlaps4(S):
    _overlaps(S, 4, limit=False)


@obligation('C20.spheres.rejects', functions=OVL[:4],
            bounds='non-sphere members rejected at construction and by add (concrete structure, symbolic radius)')
def spheres_rejects(S):
    _shim(S)
    r = S.real('r', pos=True)
    good = Sphere(n=1.5, r=r, center=(0, 0, 0))
    bad = Ellipsoid(n=1.5, r=(r, r, r), center=(5, 0, 0))
    try:
        Spheres([good, bad], warn=False)
        ok = False
    except InvalidScatterer:
        ok = True
    S.claim('ctor_rejects_non_sphere', ok)
    sp = Spheres([good], warn=False)
    try:
        sp.add(bad)
        ok = False
    except InvalidScatterer:
        ok = True
    S.claim('add_rejects_non_sphere', ok)
    S.claim('still_one_member', len(sp.scatterers) == 1)
    sp.add(Sphere(n=1.5, r=r, center=(10, 0, 0)))
    S.claim('add_accepts_sphere', len(sp.scatterers) == 2)
    S.observe('r', r)
