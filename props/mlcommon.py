"""Shared harness pieces for the MieLens-based obligations (C05, C06, C08, C04)."""
import numpy as np
import xarray as xr

from symx import core
from symx.core import SymC, SymR
from symx.shim import shim_np

import holopy.scattering.theory.mielens as ml_mod
import holopy.scattering.theory.mielensfunctions as mlf
import holopy.core.metadata as meta
import holopy.core.utils as utils
import holopy.core.math as hm
from holopy.scattering.theory.mielens import MieLens, AberratedMieLens
from holopy.scattering.theory.mielensfunctions import MieLensCalculator, AberratedMieLensCalculator
from holopy.scattering.scatterer import Sphere

ML = 'holopy.scattering.theory.mielens.'
MLF = 'holopy.scattering.theory.mielensfunctions.'
ML_FUNCS = [ML + 'MieLens.raw_fields', MLF + 'MieLensCalculator.calculate_scattered_field',
            MLF + 'MieLensCalculator._calculate_small_krho_scattered_field',
            MLF + 'MieLensCalculator._calculate_large_krho_scattered_field',
            MLF + 'MieLensCalculator._calculate_incident_field']
ML_STUBS = ['MieLensCalculator._eval_mielens_i_n := uninterpreted complex I_n(k rho, kz, m, x) '
            '(the lens-pupil integrals; constructor precomputation skipped)']


def setup(S):
    if S.sym:
        for m in (ml_mod, mlf, meta, utils, hm):
            shim_np(S, m)


def install_stub_calculator(S, log=None):
    """MieLens._create_calculator -> calculator whose radial integrals are
    uninterpreted functions of exactly the arguments they depend on."""
    I0 = S.cfunc('I0', 4)
    I2 = S.cfunc('I2', 4)

    def _create_calculator(self, particle_kz=None, index_ratio=None, size_parameter=None):
        calc = MieLensCalculator.__new__(MieLensCalculator)
        calc.particle_kz = particle_kz
        calc.index_ratio = index_ratio
        calc.size_parameter = size_parameter
        calc.lens_angle = self.lens_angle
        calc.quad_npts = 100
        calc.interpolate_integrals = False
        if log is not None:
            log.append(dict(particle_kz=particle_kz, index_ratio=index_ratio, size_parameter=size_parameter,
                            lens_angle=self.lens_angle))

        def eval_i_n(krho, n=0):
            f = I0 if n == 0 else I2
            out = np.empty(np.shape(krho), dtype=object if S.sym else complex)
            flat = out.reshape(-1)
            for j, k in enumerate(np.asarray(krho).reshape(-1)):
                flat[j] = f(k, particle_kz, index_ratio, size_parameter)
            return out
        calc._eval_mielens_i_n = eval_i_n
        return calc
    S.patch(ml_mod.MieLens, '_create_calculator', _create_calculator, both=True)


def pol_vector(S, alpha):
    """unit polarization DataArray (cos a, sin a, 0) as update_metadata would store it"""
    vals = np.array([np.cos(alpha), np.sin(alpha), 0], dtype=object if S.sym else float)
    return xr.DataArray(vals, coords={'vector': ['x', 'y', 'z']}, dims='vector')


def positions(S, rhos, phis, kz):
    n = len(rhos)
    pos = np.empty((3, n), dtype=object if S.sym else float)
    for i in range(n):
        pos[0, i] = rhos[i]
        pos[1, i] = phis[i]
        pos[2, i] = kz
    return pos


def raw_fields(S, theory, rhos, phis, kz, alpha, n=1.59, r=0.5, k=12.0, n_med=1.33):
    pos = positions(S, rhos, phis, kz)
    sph = Sphere(n=n, r=r, center=(0, 0, 0))
    return theory.raw_fields(pos, sph, k, n_med, pol_vector(S, alpha))


def install_stub_calculator_class(S, log):
    """Replaces the calculator CLASSES used by MieLens / AberratedMieLens (the real _create_calculator methods run):
    the stub records its constructor arguments and returns uninterpreted fields E_pll/E_prp(k rho, phi, kz, m, x)."""
    Epll = S.cfunc('Epll', 5)
    Eprp = S.cfunc('Eprp', 5)

    class StubCalculator:
        def __init__(self, particle_kz=None, index_ratio=None, size_parameter=None, lens_angle=None, **kw):
            self.particle_kz = particle_kz
            self.index_ratio = index_ratio
            self.size_parameter = size_parameter
            self.lens_angle = lens_angle
            self.kwargs = dict(kw)
            log.append(self)

        def calculate_scattered_field(self, krho, phi):
            n = len(krho)
            a = np.empty(n, dtype=object if S.sym else complex)
            b = np.empty(n, dtype=object if S.sym else complex)
            for i in range(n):
                a[i] = Epll(krho[i], phi[i], self.particle_kz, self.index_ratio, self.size_parameter)
                b[i] = Eprp(krho[i], phi[i], self.particle_kz, self.index_ratio, self.size_parameter)
            return a, b

        def _calculate_incident_field(self):
            return -1.0, 0.0
    S.patch(ml_mod, 'MieLensCalculator', StubCalculator, both=True)
    S.patch(ml_mod, 'AberratedMieLensCalculator', StubCalculator, both=True)
    return StubCalculator
