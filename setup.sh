#!/bin/bash
# Build /verif/.venv: a venv of /venv's interpreter that sees /venv's
# site-packages (numpy, xarray, scipy, ...) plus z3/cvc5/crosshair/jsonschema
# from the offline wheelhouse.  Idempotent.
set -e
cd "$(dirname "$0")"
V=/verif/.venv
if [ -x "$V/bin/python" ] && "$V/bin/python" -c "import z3, jsonschema, numpy, xarray" 2>/dev/null; then
  exit 0
fi
rm -rf "$V"
/venv/bin/python -m venv "$V"
SP=$("$V/bin/python" -c "import site; print(site.getsitepackages()[0])")
echo "import site; site.addsitedir('/venv/lib/python3.12/site-packages')" > "$SP/zz_venv_overlay.pth"
PIP_NO_INDEX=1 "$V/bin/pip" install -q --no-index --find-links /opt/veriftools/wheels z3-solver cvc5 jsonschema crosshair-tool 2>&1 | tail -3
"$V/bin/python" -c "import z3, jsonschema, numpy, xarray; print('venv ok', z3.get_version_string())"
