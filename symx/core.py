"""symx core: z3-backed proxy scalars that the *real* holopy NumPy/xarray code
is executed on.

SymR  - real number  (z3 Real term, or an exact Fraction constant)
SymC  - complex number (pair of SymR)
SymB  - boolean (z3 Bool term); bool() forks the path explorer

All fresh variables introduced by the proxy layer (sqrt, mod, arctan2, trig
charts) carry a recorded *definition* so that any term can be evaluated on
floats (symx.feval) - used for encoding validation and for turning solver
models into concrete replays.
"""
from __future__ import annotations

import math
import numbers
from fractions import Fraction

import numpy as np
import z3


class SymxError(Exception):
    """Harness-level problem (unsupported operation, realisation, ...)."""


class Unsupported(SymxError):
    pass


class PathInfeasible(BaseException):
    """Raised inside a body when the current path has no feasible side."""


class PathBudget(BaseException):
    pass


INF = float('inf')

# --------------------------------------------------------------------------
# context
# --------------------------------------------------------------------------

_CTX = None


def ctx() -> 'Ctx':
    if _CTX is None:
        raise SymxError("no active symx context")
    return _CTX


class Ctx:
    """State of one symbolic execution of a harness body along one path."""

    def __init__(self, schedule=(), angle_mode='chart', anti=(), feas_timeout_ms=3000,
                 max_decisions=400, anti_all=False):
        self.schedule = list(schedule)
        self.decisions = []          # booleans taken
        self.decision_terms = []
        self.path = []               # z3 Bool terms (branch conditions)
        self.axioms = []             # z3 Bool terms: definitions of fresh vars
        self.assumptions = []        # (z3 Bool, text): definedness / harness assumptions
        self.pending = []            # alternative schedules discovered
        self.counter = 0
        self.inputs = {}             # name -> z3 var  (harness inputs)
        self.input_kinds = {}
        self.defs = {}               # z3 var name -> definition tuple (for feval)
        self.uf = {}                 # name -> (z3 Function, arity, concrete impl)
        self.angle_mode = angle_mode
        self.anti = set(anti)        # base-angle indices using the antipodal chart
        self.anti_all = anti_all
        self.bases = {}              # key -> (s SymR, c SymR)
        self.base_terms = {}         # key -> z3 term of the base angle (atom/d)
        self.base_order = []
        self.qbases = {}
        self.sincos = {}
        self.keepalive = {}
        self.canon_args = {}
        self.canon_cmp = {}
        self.tokens = {}
        self.canon_terms = {}
        self.atom_pairs = {}
        self.angle_alias = {}        # z3 var name -> z3 term it is congruent to mod 2pi
        self.pi = None
        self.feas_timeout_ms = feas_timeout_ms
        self.max_decisions = max_decisions
        self.solver = z3.Solver()
        self.solver.set('timeout', feas_timeout_ms)
        self.n_feas_queries = 0
        self.decided = {}
        self.assumed_ids = set()
        self.model = None
        self._last_model = None
        self.feas_unknown = 0
        self.notes = []

    # -- variables ---------------------------------------------------------
    def fresh(self, prefix, sort='real'):
        self.counter += 1
        name = f"{prefix}!{self.counter}"
        return z3.Real(name) if sort == 'real' else z3.Int(name)

    def real(self, name, lo=None, hi=None, pos=False, nonzero=False):
        """Declare a symbolic real harness input."""
        if name in self.inputs:
            return SymR(self.inputs[name])
        v = z3.Real(name)
        self.inputs[name] = v
        self.input_kinds[name] = 'real'
        if lo is not None:
            self.assume(v >= _q(lo), f"{name} >= {lo}")
        if hi is not None:
            self.assume(v <= _q(hi), f"{name} <= {hi}")
        if pos:
            self.assume(v > 0, f"{name} > 0")
        if nonzero:
            self.assume(v != 0, f"{name} != 0")
        return SymR(v)

    def cplx(self, name):
        return SymC(self.real(name + '.re'), self.real(name + '.im'))

    def add_axiom(self, t):
        self.axioms.append(t)
        self.solver.add(t)
        self.model = None

    def assume(self, t, text=None):
        if isinstance(t, SymB):
            t = t.t
        if isinstance(t, bool):
            if not t:
                raise PathInfeasible()
            return
        self.assumptions.append((t, text or str(t)))
        self.solver.add(t)
        self.model = None

    def get_pi(self):
        if self.pi is None:
            p = z3.Real('pi')
            self.pi = p
            self.add_axiom(p > z3.Q(314159265358979, 10**14))
            self.add_axiom(p < z3.Q(314159265358980, 10**14))
            self.defs['pi'] = ('const', math.pi)
        return SymR(self.pi)

    # -- uninterpreted functions --------------------------------------------
    def func(self, name, arity, impl=None):
        """Uninterpreted real function of `arity` real arguments.  `impl` is the
        concrete stand-in used for float evaluation/replay."""
        if name not in self.uf:
            f = z3.Function(name, *([z3.RealSort()] * (arity + 1)))
            self.uf[name] = (f, arity, impl or default_impl(name))
        f = self.uf[name][0]

        def call(*args):
            ts = [_canon_arg(_lift_real(a).term(), self) for a in args]
            return SymR(f(*ts))
        return call

    # -- branching -----------------------------------------------------------
    def decide(self, t):
        t = z3.simplify(t)
        if z3.is_true(t):
            return True
        if z3.is_false(t):
            return False
        # the same comparison evaluated again on this path: reuse, no solver call
        tid = t.get_id()
        if tid in self.decided:
            return self.decided[tid]
        if z3.is_not(t) and t.arg(0).get_id() in self.decided:
            return not self.decided[t.arg(0).get_id()]
        idx = len(self.decisions)
        if idx >= self.max_decisions:
            raise PathBudget()
        if idx < len(self.schedule):
            choice = self.schedule[idx]
            self.model = None
        else:
            # the current model (if still valid) already witnesses one side
            witnessed = None
            if self.model is not None:
                try:
                    v = self.model.eval(t, model_completion=True)
                    if z3.is_true(v):
                        witnessed = True
                    elif z3.is_false(v):
                        witnessed = False
                except z3.Z3Exception:
                    witnessed = None
            can_t = True if witnessed is True else self._feasible(t)
            m_t = self._last_model if witnessed is not True else self.model
            can_f = True if witnessed is False else self._feasible(z3.Not(t))
            m_f = self._last_model if witnessed is not False else self.model
            if can_t and can_f:
                choice = True
                self.pending.append(self.decisions + [False])
            elif can_t:
                choice = True
            elif can_f:
                choice = False
            else:
                raise PathInfeasible()
            self.model = m_t if choice else m_f
        self.decisions.append(choice)
        self.decided[tid] = choice
        c = t if choice else z3.Not(t)
        self.decision_terms.append(c)
        self.path.append(c)
        self.solver.add(c)
        return choice

    def _feasible(self, t):
        self.n_feas_queries += 1
        self._last_model = None
        r = self.solver.check(t)
        if r == z3.unknown:
            self.feas_unknown += 1
            return True
        if r == z3.sat:
            try:
                self._last_model = self.solver.model()
            except z3.Z3Exception:
                self._last_model = None
            return True
        return False

    def all_constraints(self):
        return list(self.axioms) + [a for a, _ in self.assumptions] + list(self.path)


def _canon_arg(t, c):
    """canonical (polynomial / rational normal form) term of an argument of an uninterpreted
    function, so that algebraically equal arguments give the identical application"""
    if z3.is_rational_value(t) or z3.is_int_value(t) or (z3.is_const(t) and t.num_args() == 0):
        return t
    hit = c.canon_args.get(t.get_id())
    if hit is not None:
        return hit
    out = t
    try:
        poly, prims = _poly(t, c, for_trig=False, cap=80)
        if len(poly) <= 80:
            out = _poly_term(_reduce_trig(poly, c), prims)
    except Exception:
        out = t
    c.canon_args[t.get_id()] = out
    c.keepalive[('arg', t.get_id())] = t
    return out


def activate(c):
    global _CTX
    _CTX = c


def _q(x):
    if isinstance(x, Fraction):
        return z3.Q(x.numerator, x.denominator)
    if isinstance(x, int):
        return z3.RealVal(x)
    f = Fraction(x)
    return z3.Q(f.numerator, f.denominator)


def default_impl(name):
    """Deterministic smooth stand-in for an uninterpreted function."""
    h = sum((i + 1) * ord(ch) for i, ch in enumerate(name)) % 997

    def impl(*args):
        acc = 0.37 + 0.001 * h
        for i, a in enumerate(args):
            acc += math.sin((1.3 + 0.31 * i) * a + 0.7 * i + 0.01 * h) * (0.9 ** i)
        return acc
    return impl


# --------------------------------------------------------------------------
# SymB
# --------------------------------------------------------------------------

class SymB:
    __slots__ = ('t',)

    def __init__(self, t):
        self.t = t

    def __bool__(self):
        return ctx().decide(self.t)

    def _other(self, o):
        if isinstance(o, SymB):
            return o.t
        if isinstance(o, (bool, np.bool_)):
            return z3.BoolVal(bool(o))
        return None

    def __and__(self, o):
        t = self._other(o)
        return NotImplemented if t is None else SymB(z3.And(self.t, t))
    __rand__ = __and__

    def __or__(self, o):
        t = self._other(o)
        return NotImplemented if t is None else SymB(z3.Or(self.t, t))
    __ror__ = __or__

    def __invert__(self):
        return SymB(z3.Not(self.t))

    def logical_not(self):
        return SymB(z3.Not(self.t))

    def __repr__(self):
        return f"SymB({self.t})"

    def __deepcopy__(self, memo):
        return self

    def __copy__(self):
        return self


def mk_bool(t):
    """Return a python bool when the term is decided, else SymB."""
    s = z3.simplify(t)
    if z3.is_true(s):
        return True
    if z3.is_false(s):
        return False
    return SymB(t)


# --------------------------------------------------------------------------
# SymR
# --------------------------------------------------------------------------

def _is_array_like(o):
    if isinstance(o, np.ndarray):
        return True
    n = type(o).__name__
    return n in ('DataArray', 'Variable', 'Dataset', 'IndexVariable')


def _lift_real(x):
    """python/numpy real scalar -> SymR; None if not a real scalar."""
    if isinstance(x, SymR):
        return x
    if isinstance(x, (bool, np.bool_)):
        return SymR(Fraction(int(x)))
    if isinstance(x, (int, np.integer)):
        return SymR(Fraction(int(x)))
    if isinstance(x, (float, np.floating)):
        xf = float(x)
        if math.isinf(xf) or math.isnan(xf):
            return None
        return SymR(_float_to_fraction(xf))
    if isinstance(x, Fraction):
        return SymR(x)
    if isinstance(x, np.ndarray) and x.ndim == 0:
        return _lift_real(x.item())
    return None


_F2Q = {}


def _float_to_fraction(xf):
    """exact rational of the double, except that a double within one ulp of a
    rational with denominator <= 10^6 (0.1, 7/3., 1/3. ...) is read as that rational"""
    hit = _F2Q.get(xf)
    if hit is not None:
        return hit
    f = Fraction(xf)
    if f.denominator > 10 ** 6:
        g = f.limit_denominator(10 ** 6)
        if g != 0 and abs(g - f) <= abs(f) * Fraction(1, 2 ** 52):
            f = g
    _F2Q[xf] = f
    return f


def _is_inf(x):
    return isinstance(x, (float, np.floating)) and math.isinf(float(x))


class SymR:
    """Real-valued proxy."""
    __slots__ = ('c', '_t')

    def __init__(self, v):
        if isinstance(v, Fraction):
            self.c = v
            self._t = None
        elif isinstance(v, int):
            self.c = Fraction(v)
            self._t = None
        else:
            if z3.is_rational_value(v) or z3.is_int_value(v):
                self.c = Fraction(v.numerator_as_long(), v.denominator_as_long()) if z3.is_rational_value(v) else Fraction(v.as_long())
                self._t = None
            else:
                self.c = None
                self._t = v

    def term(self):
        if self._t is None:
            self._t = z3.Q(self.c.numerator, self.c.denominator)
        return self._t

    @property
    def is_const(self):
        return self.c is not None

    # -- numeric tower hooks
    @property
    def real(self):
        return self

    @property
    def imag(self):
        return SymR(Fraction(0))

    def conjugate(self):
        return self

    conj = conjugate

    def __hash__(self):
        return hash(self.c) if self.c is not None else hash(self._t)

    def __repr__(self):
        if self.c is not None:
            return f"SymR({float(self.c)!r})"
        s = str(self._t)
        return f"SymR({s if len(s) < 80 else s[:77] + '...'})"

    def __deepcopy__(self, memo):
        return self

    def __copy__(self):
        return self

    def __format__(self, spec):
        """str.format of a symbolic value yields a token that symx.core.parse_token maps back"""
        if self.c is not None:
            if self.c.denominator == 1:
                return format(int(self.c), spec) if spec else str(int(self.c))
            return format(float(self.c), spec)
        c = ctx()
        mine = z3.simplify(self.term())      # kept alive while comparing (ast ids are unique among live terms only)
        for tok, v in c.tokens.items():
            if z3.simplify(v.term()).eq(mine):
                return tok
        tok = f"<sym{len(c.tokens)}>"
        c.tokens[tok] = self
        return tok

    def __float__(self):
        if self.c is not None:
            return float(self.c)
        raise Unsupported(f"symbolic real realised by float(): {self!r}")

    def __int__(self):
        if self.c is not None and self.c.denominator == 1:
            return int(self.c)
        raise Unsupported(f"symbolic real realised by int(): {self!r}")

    def __index__(self):
        if self.c is not None and self.c.denominator == 1:
            return int(self.c)
        raise Unsupported(f"symbolic real used as index: {self!r}")

    def __complex__(self):
        if self.c is not None:
            return complex(float(self.c))
        raise Unsupported("symbolic real realised by complex()")

    def __bool__(self):
        if self.c is not None:
            return self.c != 0
        return ctx().decide(self.term() != 0)

    # -- arithmetic
    def _bin(self, o, op, reverse=False):
        if _is_array_like(o):
            return NotImplemented
        if isinstance(o, SymC):
            a = SymC(self, SymR(0))
            return getattr(o, '__r' + op + '__')(a) if not reverse else getattr(o, '__' + op + '__')(a)
        if isinstance(o, (complex, np.complexfloating)):
            oc = SymC(_lift_real(o.real), _lift_real(o.imag))
            a = SymC(self, SymR(0))
            return getattr(a, '__' + op + '__')(oc) if not reverse else getattr(oc, '__' + op + '__')(a)
        if _is_inf(o):
            return _inf_arith(self, float(o), op, reverse)
        b = _lift_real(o)
        if b is None:
            return NotImplemented
        x, y = (b, self) if reverse else (self, b)
        return _real_op(x, y, op)

    def __add__(self, o): return self._bin(o, 'add')
    def __radd__(self, o): return self._bin(o, 'add', True)
    def __sub__(self, o): return self._bin(o, 'sub')
    def __rsub__(self, o): return self._bin(o, 'sub', True)
    def __mul__(self, o): return self._bin(o, 'mul')
    def __rmul__(self, o): return self._bin(o, 'mul', True)
    def __truediv__(self, o): return self._bin(o, 'truediv')
    def __rtruediv__(self, o): return self._bin(o, 'truediv', True)
    def __mod__(self, o): return self._bin(o, 'mod')
    def __rmod__(self, o): return self._bin(o, 'mod', True)
    def __floordiv__(self, o): return self._bin(o, 'floordiv')
    def __rfloordiv__(self, o): return self._bin(o, 'floordiv', True)

    def __pow__(self, o):
        if _is_array_like(o):
            return NotImplemented
        return _real_pow(self, o)

    def __rpow__(self, o):
        if _is_array_like(o):
            return NotImplemented
        b = _lift_real(o)
        if b is None:
            return NotImplemented
        return _real_pow(b, self)

    def __neg__(self):
        if self.c is not None:
            return SymR(-self.c)
        return SymR(-self.term())

    def __pos__(self):
        return self

    def __abs__(self):
        if self.c is not None:
            return SymR(abs(self.c))
        t = self.term()
        out = SymAbs(z3.If(t >= 0, t, -t))
        out.inner = self
        out.sq = None
        return out

    # -- comparisons
    def _cmp(self, o, op):
        if _is_array_like(o):
            return NotImplemented
        if _is_inf(o):
            pos = float(o) > 0
            return {'lt': pos, 'le': pos, 'gt': not pos, 'ge': not pos, 'eq': False, 'ne': True}[op]
        if isinstance(o, (SymC, complex, np.complexfloating)):
            oc = _lift_cplx(o)
            if op == 'eq':
                return _and(self._cmp(oc.re, 'eq'), oc.im._cmp(0, 'eq'))
            if op == 'ne':
                return _not(_and(self._cmp(oc.re, 'eq'), oc.im._cmp(0, 'eq')))
            raise Unsupported("ordering of complex")
        b = _lift_real(o)
        if b is None:
            if op == 'eq':
                return False
            if op == 'ne':
                return True
            return NotImplemented
        if self.c is not None and b.c is not None:
            return {'lt': self.c < b.c, 'le': self.c <= b.c, 'gt': self.c > b.c,
                    'ge': self.c >= b.c, 'eq': self.c == b.c, 'ne': self.c != b.c}[op]
        x, y = self.term(), b.term()
        cd = _canon_diff(x, y)
        if cd is not None:
            x, y = cd, z3.RealVal(0)
        t = {'lt': x < y, 'le': x <= y, 'gt': x > y, 'ge': x >= y, 'eq': x == y, 'ne': x != y}[op]
        return mk_bool(t)

    def __lt__(self, o): return self._cmp(o, 'lt')
    def __le__(self, o): return self._cmp(o, 'le')
    def __gt__(self, o): return self._cmp(o, 'gt')
    def __ge__(self, o): return self._cmp(o, 'ge')
    def __eq__(self, o): return self._cmp(o, 'eq')
    def __ne__(self, o): return self._cmp(o, 'ne')

    # -- numpy ufunc method hooks (object arrays call these)
    def sqrt(self):
        return sym_sqrt(self)

    def sin(self):
        return trig(self)[0]

    def cos(self):
        return trig(self)[1]

    def tan(self):
        s, c = trig(self)
        return s / c

    def arctan2(self, x):
        return sym_arctan2(self, x)

    def arccos(self):
        return sym_arccos(self)

    def arctan(self):
        return sym_arctan(self)

    def arcsin(self):
        return sym_arcsin(self)

    def exp(self):
        return sym_exp(self)

    def log(self):
        return sym_log(self)

    def rint(self):
        return sym_rint(self)

    def floor(self):
        return sym_floor(self)

    def isfinite(self):
        return True

    def isnan(self):
        return False

    def deg2rad(self):
        return self * ctx().get_pi() / 180

    def square(self):
        return self * self


def _canon_diff(x, y):
    """canonical term of x - y (polynomial / rational normal form), so that the same comparison
    written in two algebraically equal ways is the same branch decision; None if too large"""
    c = _CTX
    if c is None:
        return None
    key = (x.get_id(), y.get_id())
    hit = c.canon_cmp.get(key)
    if hit is not None or key in c.canon_cmp:
        return hit
    out = None
    try:
        poly, prims = _poly(x - y, c, for_trig=False, cap=60)
        poly = _reduce_trig(poly, c)
        if len(poly) <= 16:
            out = _poly_term(poly, prims)
    except Exception:
        out = None
    c.canon_cmp[key] = out
    c.keepalive[('cmp',) + key] = (x, y)
    return out


class SymAbs(SymR):
    """|x| that remembers x (real) or |z|^2 (complex), so that |x|**2 folds to
    x*x / re^2+im^2 without a case split or a square-root variable"""
    __slots__ = ('inner', 'sq')


numbers.Real.register(SymR)


def _inf_arith(a, inf, op, reverse):
    # a is a finite real; only sign-independent cases are supported
    if op == 'add':
        return inf
    if op == 'sub':
        return inf if reverse else -inf
    if op == 'truediv' and not reverse:
        return SymR(0)
    if op == 'mul':
        if a.c is not None:
            if a.c == 0:
                return float('nan')
            return inf if a.c > 0 else -inf
        # fork on the sign
        if a > 0:
            return inf
        if a < 0:
            return -inf
        return float('nan')
    raise Unsupported(f"inf arithmetic {op} reverse={reverse}")


def _real_op(x: SymR, y: SymR, op):
    xc, yc = x.c, y.c
    if op == 'add':
        if xc is not None and yc is not None:
            return SymR(xc + yc)
        if xc == 0:
            return y
        if yc == 0:
            return x
        return SymR(x.term() + y.term())
    if op == 'sub':
        if xc is not None and yc is not None:
            return SymR(xc - yc)
        if yc == 0:
            return x
        if xc == 0:
            return -y
        return SymR(x.term() - y.term())
    if op == 'mul':
        if xc is not None and yc is not None:
            return SymR(xc * yc)
        if xc == 0 or yc == 0:
            return SymR(Fraction(0))
        if xc == 1:
            return y
        if yc == 1:
            return x
        if xc == -1:
            return -y
        if yc == -1:
            return -x
        return SymR(x.term() * y.term())
    if op == 'truediv':
        if yc is not None:
            if yc == 0:
                # NumPy semantics (the code under test may rely on inf/nan with errstate)
                if xc is not None:
                    return float('nan') if xc == 0 else (INF if xc > 0 else -INF)
                if x > 0:
                    return INF
                if x < 0:
                    return -INF
                return float('nan')
            if xc is not None:
                return SymR(xc / yc)
            if yc == 1:
                return x
            return SymR(x.term() * _q(1 / yc))
        if xc == 0:
            _assume_defined(y.term() != 0, "division: denominator != 0")
            return SymR(Fraction(0))
        _assume_defined(y.term() != 0, "division: denominator != 0")
        return SymR(x.term() / y.term())
    if op == 'mod':
        return sym_mod(x, y)
    if op == 'floordiv':
        return sym_floor(_real_op(x, y, 'truediv'))
    raise Unsupported(op)


def _assume_defined(t, text):
    c = ctx()
    s = z3.simplify(t)
    if z3.is_true(s):
        return
    if z3.is_false(s):
        raise PathInfeasible()
    tid = t.get_id()
    if tid in c.assumed_ids:
        return
    c.assumed_ids.add(tid)
    c.assumptions.append((t, text))
    c.solver.add(t)
    c.model = None


def _real_pow(base, e):
    base = _lift_real(base) if not isinstance(base, SymR) else base
    if isinstance(e, SymR) and e.c is not None:
        ec = e.c
    elif isinstance(e, SymR):
        ec = None
    else:
        el = _lift_real(e)
        if el is None:
            return NotImplemented
        ec = el.c
    if ec is not None:
        if ec.denominator == 1:
            n = int(ec)
            if isinstance(base, SymAbs) and n % 2 == 0 and n > 0:
                if getattr(base, 'sq', None) is not None:
                    return base.sq if n == 2 else _real_pow(base.sq, n // 2)
                if getattr(base, 'inner', None) is not None:
                    base = base.inner
            if base.c is not None:
                if n < 0 and base.c == 0:
                    raise ZeroDivisionError
                return SymR(base.c ** n)
            if n == 0:
                return SymR(Fraction(1))
            r = None
            p = abs(n)
            acc = base
            # square-and-multiply keeps terms small
            while p:
                if p & 1:
                    r = acc if r is None else r * acc
                p >>= 1
                if p:
                    acc = acc * acc
            return r if n > 0 else SymR(1) / r
        if ec == Fraction(1, 2):
            return sym_sqrt(base)
        if ec == Fraction(1, 3):
            return sym_cbrt(base)
        if ec == Fraction(-1, 2):
            return SymR(1) / sym_sqrt(base)
        if base.c is not None and base.c > 0:
            # constant ** rational: float value lifted (documented approximation)
            return SymR(Fraction(float(base.c) ** float(ec)))
    # general power: uninterpreted, with the sign facts that hold for real powers
    c = ctx()
    f = c.func('pow', 2, impl=lambda a, b: math.pow(a, b))
    out = f(base, e)
    if ec is not None and ec > 0 and base.c is None:
        bt = base.term()
        c.add_axiom(z3.Implies(bt >= 0, out.term() >= 0))
        c.add_axiom(z3.Implies(bt >= 1, out.term() >= 1))
        c.add_axiom(z3.Implies(z3.And(bt >= 0, bt <= 1), out.term() <= 1))
        if ec < 1:
            c.add_axiom(z3.Implies(bt >= 1, out.term() <= bt))
    return out


# --------------------------------------------------------------------------
# elementary functions
# --------------------------------------------------------------------------

def _numden_term(t, memo):
    """z3 real term -> (numerator, denominator|None) without division"""
    from .solve import _numden
    return _numden(t, memo)


def _reduce_sqrt_squares(poly, prims, c, depth=0):
    """replace (sqrt var)^2 by the polynomial it is the root of (when that is a polynomial)"""
    changed = True
    guard = 0
    while changed and guard < 32:
        changed = False
        guard += 1
        out = {}
        for mono, coef in poly.items():
            hit = None
            for pid in set(mono):
                if mono.count(pid) >= 2:
                    t = prims.get(pid)
                    if t is None or t.num_args() != 0:
                        continue
                    d = c.defs.get(str(t))
                    if d is not None and d[0] == 'sqrt':
                        hit = (pid, d[1])
                        break
            if hit is None:
                out[mono] = out.get(mono, 0) + coef
                continue
            pid, xterm = hit
            xp, xprims = _poly(xterm, c, for_trig=False)
            if any(pid in m2 for m2 in xp):
                out[mono] = out.get(mono, 0) + coef
                continue
            prims.update(xprims)
            rest = list(mono)
            rest.remove(pid)
            rest.remove(pid)
            rest = tuple(rest)
            for m2, c2 in xp.items():
                m = tuple(sorted(rest + m2))
                out[m] = out.get(m, 0) + coef * c2
            changed = True
        poly = {m: v for m, v in out.items() if v != 0}
    return poly


def _sqrt_is_rational_const(x, c):
    """sqrt(N/D) where, after replacing squares of earlier square-root variables by
    their radicands, N = k^2 D for a rational k: returns k, else None.  (Covers
    re-normalising an already normalised vector.)"""
    try:
        n, d = _numden_term(z3.simplify(x.term()), {})
        if d is None:
            return None
        pn, prims = _poly(n, c, for_trig=False)
        pd, prims2 = _poly(d, c, for_trig=False)
        prims.update(prims2)
        pn = _reduce_trig(_reduce_sqrt_squares(pn, prims, c), c)
        pd = _reduce_trig(_reduce_sqrt_squares(pd, prims, c), c)
        if not pn or not pd or set(pn) != set(pd):
            return None
        ratios = {pn[m] / pd[m] for m in pn}
        if len(ratios) != 1:
            return None
        k2 = ratios.pop()
        if k2 <= 0:
            return None
        a, b = math.isqrt(k2.numerator), math.isqrt(k2.denominator)
        if a * a == k2.numerator and b * b == k2.denominator:
            return Fraction(a, b)
    except Exception:
        return None
    return None


def sym_sqrt(x):
    if isinstance(x, SymC):
        return x.sqrt()
    x = _lift_real(x)
    if x.c is not None:
        if x.c < 0:
            raise Unsupported("sqrt of negative constant")
        n, d = x.c.numerator, x.c.denominator
        rn, rd = math.isqrt(n), math.isqrt(d)
        if rn * rn == n and rd * rd == d:
            return SymR(Fraction(rn, rd))
    c = ctx()
    reduced = None
    try:
        poly, _prims = _poly(x.term(), c, for_trig=False)
        poly = _reduce_trig(_reduce_sqrt_squares(poly, _prims, c), c)
        key = ('sqrt', tuple(sorted(poly.items())))
        if 0 < len(poly) <= 4:
            reduced = _poly_term(poly, _prims)
    except Exception:
        key = ('sqrt', x.term().get_id())
        c.keepalive[key] = x.term()
    hit = c.bases.get(key)
    if hit is not None:
        return hit
    k = _sqrt_is_rational_const(x, c)
    if k is not None:
        out = SymR(k)
        c.bases[key] = out
        return out
    _assume_defined(x.term() >= 0, "sqrt: argument >= 0")
    r = c.fresh('sqrt')
    c.add_axiom(r >= 0)
    c.add_axiom(r * r == x.term())
    if reduced is not None:
        # the same radicand after the exact reductions (s^2 + c^2 = 1, (sqrt v)^2 = v) that already define the
        # cache key: hands the solver r^2 = <short polynomial> instead of leaving the reduction to it
        c.add_axiom(r * r == reduced)
    c.defs[str(r)] = ('sqrt', x.term())
    out = SymR(r)
    c.bases[key] = out
    return out


def sym_cbrt(x):
    """real cube root: w with w^3 = x"""
    x = _lift_real(x)
    if x.c is not None:
        n, d = abs(x.c.numerator), x.c.denominator
        rn, rd = round(n ** (1 / 3)), round(d ** (1 / 3))
        if rn ** 3 == n and rd ** 3 == d:
            return SymR(Fraction(rn if x.c >= 0 else -rn, rd))
    c = ctx()
    try:
        poly, _pr = _poly(x.term(), c, for_trig=False)
        key = ('cbrt', tuple(sorted(poly.items())))
    except Exception:
        poly, _pr = None, None
        key = ('cbrt', x.term().get_id())
        c.keepalive[key] = x.term()
    hit = c.bases.get(key)
    if hit is not None:
        return hit
    if poly is not None and len(poly) == 1:
        # single monomial: cbrt(p^3 m) = p cbrt(m) for every atom p occurring three times
        (mono, coef), = poly.items()
        outside, rest = [], list(mono)
        for pid in sorted(set(mono)):
            while rest.count(pid) >= 3 and _pr[pid].num_args() == 0:
                for _ in range(3):
                    rest.remove(pid)
                outside.append(pid)
        if outside:
            inner = SymR(_poly_term({tuple(rest): coef}, _pr))
            res = sym_cbrt(inner)
            for pid in outside:
                res = res * SymR(_pr[pid])
            c.bases[key] = res
            return res
    w = c.fresh('cbrt')
    c.add_axiom(w * w * w == x.term())
    c.add_axiom(z3.Implies(x.term() > 0, w > 0))
    c.add_axiom(z3.Implies(x.term() < 0, w < 0))
    c.add_axiom(z3.Implies(x.term() == 0, w == 0))
    c.defs[str(w)] = ('cbrt', x.term())
    out = SymR(w)
    c.bases[key] = out
    return out


def sym_mod(a, m):
    a, m = _lift_real(a), _lift_real(m)
    if a.c is not None and m.c is not None:
        if m.c == 0:
            raise ZeroDivisionError
        return SymR(a.c - m.c * (a.c // m.c))
    c = ctx()
    try:
        mkey = ('mod', canon_key(a.term(), c), canon_key(m.term(), c))
    except Exception:
        mkey = ('mod', a.term().get_id(), m.term().get_id())
        c.keepalive[mkey] = (a.term(), m.term())
    hit = c.bases.get(mkey)
    if hit is not None:
        return hit
    _assume_defined(m.term() > 0, "mod: modulus > 0")
    q = c.fresh('mod')
    k = c.fresh('modk', 'int')
    c.add_axiom(q == a.term() - m.term() * z3.ToReal(k))
    c.add_axiom(q >= 0)
    c.add_axiom(q < m.term())
    c.defs[str(q)] = ('mod', a.term(), m.term())
    c.defs[str(k)] = ('modk', a.term(), m.term())
    # angle bookkeeping: q == a (mod 2 pi) when m is exactly 2*pi
    if c.pi is not None:
        if z3.is_true(z3.simplify(m.term() == 2 * c.pi)):
            c.angle_alias[str(q)] = a.term()
    c.bases[mkey] = SymR(q)
    return SymR(q)


def sym_floor(x):
    x = _lift_real(x)
    if x.c is not None:
        return SymR(Fraction(math.floor(x.c)))
    return SymR(z3.ToReal(z3.ToInt(x.term())))


def sym_rint(x):
    """round-half-even is modelled as floor(x+1/2) with the tie assumed away."""
    x = _lift_real(x)
    if x.c is not None:
        return SymR(Fraction(round(x.c)))
    c = ctx()
    t = x.term()
    fl = z3.ToReal(z3.ToInt(t + z3.Q(1, 2)))
    _assume_defined(t + z3.Q(1, 2) != fl, "rint: not exactly at a .5 tie")
    return SymR(fl)


def sym_exp(x):
    if isinstance(x, SymC):
        return x.exp()
    x = _lift_real(x)
    if x.c is not None and x.c == 0:
        return SymR(Fraction(1))
    c = ctx()
    f = c.func('exp', 1, impl=math.exp)
    r = f(x)
    c.add_axiom(r.term() > 0)
    return r


def sym_log(x):
    x = _lift_real(x)
    if x.c is not None and x.c == 1:
        return SymR(Fraction(0))
    c = ctx()
    if x.c is not None and x.c <= 0:
        raise Unsupported("log of non-positive constant")
    if x.c is None:
        _assume_defined(x.term() > 0, "log: argument > 0")
    f = c.func('log', 1, impl=math.log)
    return f(x)


# --------------------------------------------------------------------------
# angle algebra
# --------------------------------------------------------------------------

def _padd(p, q, sign=1):
    out = dict(p)
    for m, v in q.items():
        nv = out.get(m, 0) + sign * v
        if nv == 0:
            out.pop(m, None)
        else:
            out[m] = nv
    return out


def _pmul(p, q):
    out = {}
    for m1, v1 in p.items():
        for m2, v2 in q.items():
            m = tuple(sorted(m1 + m2))
            nv = out.get(m, 0) + v1 * v2
            if nv == 0:
                out.pop(m, None)
            else:
                out[m] = nv
    return out


_ONE = {(): Fraction(1)}


class _TooBig(Exception):
    pass


def _poly(t, c, for_trig=True, cap=400):
    """z3 real term -> polynomial normal form over primitive atoms:
    ({monomial: Fraction}, {atom id: term}); a monomial is a sorted tuple of atom
    ids (with repetition); () is the constant monomial.  Quotients are brought to
    a canonical N/D form (nested quotients flattened, common monomial factors
    cancelled); a non-polynomial quotient becomes one canonical atom per numerator
    monomial, so that additive structure is kept."""
    prims = {}

    def prim(t):
        prims[t.get_id()] = t
        c.keepalive[t.get_id()] = t      # ast ids are only unique among live terms
        return {(t.get_id(),): Fraction(1)}

    def rat(t):
        """(numerator poly, denominator poly)"""
        if z3.is_rational_value(t):
            v = Fraction(t.numerator_as_long(), t.denominator_as_long())
            return ({(): v} if v != 0 else {}), _ONE
        if z3.is_int_value(t):
            v = t.as_long()
            return ({(): Fraction(v)} if v != 0 else {}), _ONE
        if z3.is_app(t):
            k = t.decl().kind()
            ch = t.children()
            if k in (z3.Z3_OP_ADD, z3.Z3_OP_SUB):
                n, d = rat(ch[0])
                for x in ch[1:]:
                    n2, d2 = rat(x)
                    sign = 1 if k == z3.Z3_OP_ADD else -1
                    if d == d2:
                        n = _padd(n, n2, sign)
                    else:
                        n = _padd(_pmul(n, d2), _pmul(n2, d), sign)
                        d = _pmul(d, d2)
                    if len(n) > cap or len(d) > cap:
                        raise _TooBig()
                return n, d
            if k == z3.Z3_OP_UMINUS:
                n, d = rat(ch[0])
                return _padd({}, n, -1), d
            if k == z3.Z3_OP_MUL:
                n, d = _ONE, _ONE
                for x in ch:
                    n2, d2 = rat(x)
                    n, d = _pmul(n, n2), _pmul(d, d2)
                    if len(n) > cap or len(d) > cap:
                        raise _TooBig()
                return n, d
            if k == z3.Z3_OP_DIV:
                n1, d1 = rat(ch[0])
                n2, d2 = rat(ch[1])
                if not n2:
                    return prim(t), _ONE
                return _pmul(n1, d2), _pmul(d1, n2)
            if k == z3.Z3_OP_POWER and (z3.is_int_value(ch[1]) or z3.is_rational_value(ch[1])):
                e = Fraction(ch[1].numerator_as_long(), ch[1].denominator_as_long())
                if e.denominator == 1 and 0 <= e <= 8:
                    n, d = rat(ch[0])
                    rn, rd = _ONE, _ONE
                    for _ in range(int(e)):
                        rn, rd = _pmul(rn, n), _pmul(rd, d)
                    return rn, rd
            if for_trig and k == z3.Z3_OP_UNINTERPRETED and not ch:
                alias = c.angle_alias.get(str(t))
                if alias is not None:
                    return rat(alias)
        return prim(t), _ONE

    def addends(t, sign, out):
        if z3.is_app(t):
            k = t.decl().kind()
            ch = t.children()
            if k == z3.Z3_OP_ADD:
                for x in ch:
                    addends(x, sign, out)
                return
            if k == z3.Z3_OP_SUB:
                addends(ch[0], sign, out)
                for x in ch[1:]:
                    addends(x, -sign, out)
                return
            if k == z3.Z3_OP_UMINUS:
                addends(ch[0], -sign, out)
                return
            if for_trig and k == z3.Z3_OP_UNINTERPRETED and not ch:
                alias = c.angle_alias.get(str(t))
                if alias is not None:
                    addends(alias, sign, out)
                    return
        out.append((sign, t))

    poly = {}
    parts = []
    addends(z3.simplify(t), 1, parts)
    for sign, term in parts:
        try:
            n, d = rat(term)
        except _TooBig:
            poly = _padd(poly, prim(term), sign)
            continue
        n, d = _cancel_monomial_factors(n, d)
        if not n:
            continue
        if len(d) == 1 and () in d:
            poly = _padd(poly, {m: v / d[()] for m, v in n.items()}, sign)
            continue
        # non-polynomial: one canonical atom (monomial / denominator) per numerator monomial
        for m, v in n.items():
            mn, md = _cancel_monomial_factors({m: Fraction(1)}, d)
            lead = md[min(md)]
            md = {k2: v2 / lead for k2, v2 in md.items()}
            v = v / lead
            key = ('rat', tuple(sorted(mn.items())), tuple(sorted(md.items())))
            rep = c.canon_terms.get(key)
            if rep is None:
                rep = _poly_term(mn, prims) / _poly_term(md, prims)
                c.canon_terms[key] = rep
            poly = _padd(poly, prim(rep), sign * v)
    return poly, prims


def _cancel_monomial_factors(pn, pd):
    """divide numerator and denominator polynomials by the primitive atoms common to every monomial"""
    if not pn or not pd:
        return pn, pd
    monos = list(pn) + list(pd)
    common = list(monos[0])
    for m in monos[1:]:
        mm = list(m)
        keep = []
        for a in common:
            if a in mm:
                mm.remove(a)
                keep.append(a)
        common = keep
        if not common:
            return pn, pd

    def strip(m):
        mm = list(m)
        for a in common:
            mm.remove(a)
        return tuple(mm)
    return {strip(m): v for m, v in pn.items()}, {strip(m): v for m, v in pd.items()}


def _poly_term(poly, prims):
    """deterministic z3 term of a polynomial in normal form"""
    t = None
    for mono, coef in sorted(poly.items()):
        mt = None
        for i in mono:
            mt = prims[i] if mt is None else mt * prims[i]
        term = _q(coef) if mt is None else (mt if coef == 1 else _q(coef) * mt)
        t = term if t is None else t + term
    return t if t is not None else z3.RealVal(0)


def canon_key(term, c):
    poly, _prims = _poly(term, c, for_trig=False)
    return tuple(sorted(_reduce_trig(poly, c).items()))


def _reduce_trig(poly, c):
    """normal form modulo sin^2 + cos^2 = 1 for the registered sin/cos atom pairs:
    every sin_i^2 is replaced by 1 - cos_i^2"""
    pairs = getattr(c, 'atom_pairs', None)
    if not pairs:
        return poly
    changed = True
    guard = 0
    while changed and guard < 64:
        changed = False
        guard += 1
        out = {}
        for mono, coef in poly.items():
            hit = None
            for sid, cid in pairs.items():
                if mono.count(sid) >= 2:
                    hit = (sid, cid)
                    break
            if hit is None:
                out[mono] = out.get(mono, 0) + coef
                continue
            changed = True
            sid, cid = hit
            rest = list(mono)
            rest.remove(sid)
            rest.remove(sid)
            m1 = tuple(sorted(rest))
            m2 = tuple(sorted(rest + [cid, cid]))
            out[m1] = out.get(m1, 0) + coef
            out[m2] = out.get(m2, 0) - coef
        poly = {m: v for m, v in out.items() if v != 0}
    return poly


def _mono_term(mono, prims):
    t = None
    for i in mono:
        t = prims[i] if t is None else t * prims[i]
    return t


def _decompose(t, c, for_trig=True):
    """z3 real term -> ({monomial: (atom term, Fraction coeff)}, const Fraction)"""
    poly, prims = _poly(t, c, for_trig)
    const = poly.pop((), Fraction(0))
    return {m: (_mono_term(m, prims), q) for m, q in poly.items()}, const


def _base_trig(c, key, base_term):
    """(sin, cos) of one base angle."""
    hit = c.bases.get(key)
    if hit is not None:
        return hit
    idx = len(c.base_order)
    c.base_order.append(key)
    c.base_terms[key] = base_term
    if c.angle_mode == 'chart':
        t = c.fresh('tanhalf')
        is_anti = c.anti_all or idx in c.anti
        c.defs[str(t)] = ('tanhalf', base_term, is_anti)
        tt = SymR(t)
        den = 1 + tt * tt
        s = 2 * tt / den
        co = (1 - tt * tt) / den
        if is_anti:
            s, co = -s, -co
        # the chart itself: 1+t^2 != 0 is valid, drop the recorded assumption noise
    else:
        sv, cv = c.fresh('sin'), c.fresh('cos')
        c.defs[str(sv)] = ('sin', base_term)
        c.defs[str(cv)] = ('cos', base_term)
        c.add_axiom(sv * sv + cv * cv == 1)
        c.atom_pairs[sv.get_id()] = cv.get_id()
        s, co = SymR(sv), SymR(cv)
        _angle_facts(c, base_term, sv, cv)
        # injectivity instances against earlier bases
        for k2 in c.base_order[:-1]:
            s2, c2 = c.bases[k2]
            if s2.c is not None or c2.c is not None:
                continue
            kk = c.fresh('wind', 'int')
            c.defs[str(kk)] = ('wind', base_term, c.base_terms[k2])
            pi = c.get_pi().term()
            c.add_axiom(z3.Implies(z3.And(sv == s2.term(), cv == c2.term()),
                                   base_term - c.base_terms[k2] == 2 * pi * z3.ToReal(kk)))
    c.bases[key] = (s, co)
    return s, co


def _angle_facts(c, th, s, co):
    pi = c.get_pi().term()
    ax = c.add_axiom
    ax(z3.Implies(z3.And(th > 0, th < pi), s > 0))
    ax(z3.Implies(z3.And(th > -pi, th < 0), s < 0))
    ax(z3.Implies(z3.And(th > pi, th < 2 * pi), s < 0))
    ax(z3.Implies(z3.And(th > -pi / 2, th < pi / 2), co > 0))
    ax(z3.Implies(z3.And(th > pi / 2, th < 3 * pi / 2), co < 0))
    ax(z3.Implies(z3.And(th > -3 * pi / 2, th < -pi / 2), co < 0))
    ax(z3.Implies(z3.And(th > 3 * pi / 2, th < 5 * pi / 2), co > 0))
    ax(z3.Implies(th == 0, z3.And(s == 0, co == 1)))
    ax(z3.Implies(th == pi, z3.And(s == 0, co == -1)))
    ax(z3.Implies(th == -pi, z3.And(s == 0, co == -1)))
    ax(z3.Implies(th == pi / 2, z3.And(s == 1, co == 0)))
    ax(z3.Implies(th == -pi / 2, z3.And(s == -1, co == 0)))
    ax(z3.Implies(th == 3 * pi / 2, z3.And(s == -1, co == 0)))
    ax(z3.Implies(th == 2 * pi, z3.And(s == 0, co == 1)))


def _multiple(s, co, n):
    """(sin(n a), cos(n a)) from (sin a, cos a) by the addition formulas."""
    if n == 0:
        return SymR(0), SymR(1)
    neg = n < 0
    n = abs(n)
    rs, rc = SymR(0), SymR(1)
    bs, bc = s, co
    while n:
        if n & 1:
            rs, rc = rs * bc + rc * bs, rc * bc - rs * bs
        n >>= 1
        if n:
            bs, bc = 2 * bs * bc, bc * bc - bs * bs
    return (-rs if neg else rs), rc


def trig(x):
    """(sin x, cos x) for a SymR (or real scalar)."""
    if isinstance(x, SymC):
        raise Unsupported("trig of complex")
    x = _lift_real(x)
    c = ctx()
    if x.c is not None and x.c == 0:
        return SymR(0), SymR(1)
    parts, const = _decompose(x.term(), c)
    s, co = SymR(0), SymR(1)
    quarter = 0
    pi_id = (c.pi.get_id(),) if c.pi is not None else None
    for k, (atom, q) in sorted(parts.items(), key=lambda kv: str(kv[1][0])):
        if k == pi_id and (q * 2).denominator == 1:
            quarter += int(q * 2)          # multiples of pi/2: exact quarter turns
            continue
        if abs(q.numerator) > 12:
            # large multiplier (e.g. a float coefficient): q0*atom is its own base
            # angle; later coefficients that are small integer multiples of q0 reuse it
            q0 = None
            for cand in c.qbases.get(k, []):
                ratio = q / cand
                if ratio.denominator == 1 and abs(ratio.numerator) <= 12:
                    q0 = cand
                    break
            if q0 is None:
                q0 = q
                c.qbases.setdefault(k, []).append(q0)
            key = (k, 'q', q0)
            bs, bc = _base_trig(c, key, atom * _q(q0))
            ms, mc = _multiple(bs, bc, int(q / q0))
        else:
            key = (k, q.denominator)
            bs, bc = _base_trig(c, key, atom / q.denominator if q.denominator != 1 else atom)
            ms, mc = _multiple(bs, bc, q.numerator)
        s, co = s * mc + co * ms, co * mc - s * ms
    if const != 0:
        key = ('const', const)
        hit = c.bases.get(key)
        if hit is None:
            # sin/cos of a rational constant: a point on the unit circle (nothing else assumed)
            sv, cv = c.fresh('sinc'), c.fresh('cosc')
            c.defs[str(sv)] = ('sin', _q(const))
            c.defs[str(cv)] = ('cos', _q(const))
            c.add_axiom(sv * sv + cv * cv == 1)
            hit = (SymR(sv), SymR(cv))
            c.bases[key] = hit
        ms, mc = hit
        s, co = s * mc + co * ms, co * mc - s * ms
    quarter %= 4
    for _ in range(quarter):
        s, co = co, -s
    if s.c is None and co.c is None:
        c.sincos[(s.term().get_id(), co.term().get_id())] = x
        c.keepalive[('sincos', s.term().get_id(), co.term().get_id())] = (s.term(), co.term())
    return s, co


def sym_arctan2(y, x):
    y, x = _lift_real(y), _lift_real(x)
    c = ctx()
    if y.c is not None and x.c is not None:
        if y.c == 0 and x.c > 0:
            return SymR(0)
        if y.c == 0 and x.c == 0:
            return SymR(0)
        if y.c == 0 and x.c < 0:
            return c.get_pi()
        if x.c == 0:
            return c.get_pi() / 2 if y.c > 0 else -c.get_pi() / 2
    try:
        key = ('atan2', canon_key(y.term(), c), canon_key(x.term(), c))
    except Exception:
        key = ('atan2', y.term().get_id(), x.term().get_id())
        c.keepalive[key] = (y.term(), x.term())
    hit = c.bases.get(key)
    if hit is not None:
        return hit
    known = c.sincos.get((y.term().get_id(), x.term().get_id()))
    if known is not None:
        # arctan2(sin t, cos t) = t for t in (-pi, pi]
        pi = c.get_pi().term()
        _assume_defined(z3.And(known.term() > -pi, known.term() <= pi),
                        "arctan2(sin t, cos t) = t: t in (-pi, pi]")
        c.bases[key] = known
        return known
    pi = c.get_pi().term()
    phi = c.fresh('atan2')
    c.defs[str(phi)] = ('atan2', y.term(), x.term())
    c.add_axiom(phi > -pi)
    c.add_axiom(phi <= pi)
    rho = sym_hypot(x, y)
    out = SymR(phi)
    s, co = trig(out)
    c.add_axiom(x.term() == (rho * co).term())
    c.add_axiom(y.term() == (rho * s).term())
    c.add_axiom(z3.Implies(rho.term() == 0, phi == 0))
    # sign facts that follow from the definition (help the solver, all valid)
    c.add_axiom(z3.Implies(y.term() > 0, z3.And(phi > 0, phi < pi)))
    c.add_axiom(z3.Implies(y.term() < 0, z3.And(phi < 0, phi > -pi)))
    c.add_axiom(z3.Implies(z3.And(y.term() == 0, x.term() > 0), phi == 0))
    c.add_axiom(z3.Implies(z3.And(y.term() == 0, x.term() < 0), phi == pi))
    c.add_axiom(z3.Implies(x.term() > 0, z3.And(phi > -pi / 2, phi < pi / 2)))
    c.add_axiom(z3.Implies(z3.And(x.term() == 0, y.term() > 0), phi == pi / 2))
    c.add_axiom(z3.Implies(z3.And(x.term() == 0, y.term() < 0), phi == -pi / 2))
    c.add_axiom(z3.Implies(z3.And(x.term() < 0, y.term() >= 0), phi > pi / 2))
    c.add_axiom(z3.Implies(z3.And(x.term() < 0, y.term() < 0), phi < -pi / 2))
    c.bases[key] = out
    return out


def sym_hypot(x, y):
    x, y = _lift_real(x), _lift_real(y)
    return sym_sqrt(x * x + y * y)


def sym_arctan(x):
    """theta in (-pi/2, pi/2) with tan(theta) = x"""
    x = _lift_real(x)
    c = ctx()
    if x.c is not None and x.c == 0:
        return SymR(0)
    pi = c.get_pi().term()
    th = c.fresh('atan')
    c.defs[str(th)] = ('atan', x.term())
    c.add_axiom(th > -pi / 2)
    c.add_axiom(th < pi / 2)
    out = SymR(th)
    s, co = trig(out)
    c.add_axiom(co.term() > 0)
    c.add_axiom(s.term() == (x * co).term())
    return out


def sym_arcsin(x):
    """theta in [-pi/2, pi/2] with sin(theta) = x"""
    x = _lift_real(x)
    c = ctx()
    _assume_defined(z3.And(x.term() >= -1, x.term() <= 1), "arcsin: |x| <= 1")
    pi = c.get_pi().term()
    th = c.fresh('asin')
    c.defs[str(th)] = ('asin', x.term())
    c.add_axiom(th >= -pi / 2)
    c.add_axiom(th <= pi / 2)
    out = SymR(th)
    s, co = trig(out)
    c.add_axiom(s.term() == x.term())
    c.add_axiom(co.term() >= 0)
    return out


def sym_arccos(x):
    """theta in [0, pi] with cos(theta) = x."""
    x = _lift_real(x)
    c = ctx()
    _assume_defined(z3.And(x.term() >= -1, x.term() <= 1), "arccos: |x| <= 1")
    pi = c.get_pi().term()
    th = c.fresh('acos')
    c.defs[str(th)] = ('acos', x.term())
    c.add_axiom(th >= 0)
    c.add_axiom(th <= pi)
    out = SymR(th)
    s, co = trig(out)
    c.add_axiom(co.term() == x.term())
    c.add_axiom(s.term() >= 0)
    return out


# --------------------------------------------------------------------------
# SymC
# --------------------------------------------------------------------------

def _lift_cplx(x):
    if isinstance(x, SymC):
        return x
    if isinstance(x, SymR):
        return SymC(x, SymR(0))
    if isinstance(x, (complex, np.complexfloating)):
        re, im = _lift_real(x.real), _lift_real(x.imag)
        if re is None or im is None:
            return None
        return SymC(re, im)
    r = _lift_real(x)
    if r is None:
        return None
    return SymC(r, SymR(0))


class SymC:
    __slots__ = ('re', 'im')

    def __init__(self, re, im):
        self.re = _lift_real(re)
        self.im = _lift_real(im)

    @property
    def real(self):
        return self.re

    @property
    def imag(self):
        return self.im

    def conjugate(self):
        return SymC(self.re, -self.im)

    conj = conjugate

    def __hash__(self):
        return hash((self.re, self.im))

    def __repr__(self):
        return f"SymC({self.re!r}, {self.im!r})"

    def __deepcopy__(self, memo):
        return self

    def __copy__(self):
        return self

    def __complex__(self):
        if self.re.c is not None and self.im.c is not None:
            return complex(float(self.re.c), float(self.im.c))
        raise Unsupported("symbolic complex realised by complex()")

    def __float__(self):
        raise Unsupported("symbolic complex realised by float()")

    def __bool__(self):
        return bool(_or(self.re != 0, self.im != 0))

    def _coerce(self, o):
        if _is_array_like(o):
            return None
        return _lift_cplx(o)

    def __add__(self, o):
        b = self._coerce(o)
        return NotImplemented if b is None else SymC(self.re + b.re, self.im + b.im)
    __radd__ = __add__

    def __sub__(self, o):
        b = self._coerce(o)
        return NotImplemented if b is None else SymC(self.re - b.re, self.im - b.im)

    def __rsub__(self, o):
        b = self._coerce(o)
        return NotImplemented if b is None else SymC(b.re - self.re, b.im - self.im)

    def __mul__(self, o):
        b = self._coerce(o)
        if b is None:
            return NotImplemented
        return SymC(self.re * b.re - self.im * b.im, self.re * b.im + self.im * b.re)
    __rmul__ = __mul__

    def __truediv__(self, o):
        b = self._coerce(o)
        if b is None:
            return NotImplemented
        if b.im.c is not None and b.im.c == 0:
            return SymC(self.re / b.re, self.im / b.re)
        d = b.re * b.re + b.im * b.im
        return SymC((self.re * b.re + self.im * b.im) / d, (self.im * b.re - self.re * b.im) / d)

    def __rtruediv__(self, o):
        b = self._coerce(o)
        return NotImplemented if b is None else b.__truediv__(self)

    def __neg__(self):
        return SymC(-self.re, -self.im)

    def __pos__(self):
        return self

    def __abs__(self):
        if self.im.c is not None and self.im.c == 0:
            return abs(self.re)
        if self.re.c is not None and self.re.c == 0:
            return abs(self.im)
        sq = self.re * self.re + self.im * self.im
        r = sym_sqrt(sq)
        if r.c is not None:
            return r
        out = SymAbs(r.term())
        out.inner = None
        out.sq = sq
        return out

    def __pow__(self, e):
        if _is_array_like(e):
            return NotImplemented
        el = _lift_real(e)
        if el is not None and el.c is not None and el.c.denominator == 1:
            n = int(el.c)
            if n == 0:
                return SymC(1, 0)
            r = None
            acc = self
            p = abs(n)
            while p:
                if p & 1:
                    r = acc if r is None else r * acc
                p >>= 1
                if p:
                    acc = acc * acc
            return r if n > 0 else SymC(1, 0) / r
        if el is not None and el.c == Fraction(1, 2):
            return self.sqrt()
        raise Unsupported(f"complex power {e!r}")

    def __rpow__(self, b):
        raise Unsupported("x ** complex")

    def __eq__(self, o):
        b = self._coerce(o)
        if b is None:
            return NotImplemented if _is_array_like(o) else False
        return _and(self.re == b.re, self.im == b.im)

    def __ne__(self, o):
        r = self.__eq__(o)
        if r is NotImplemented:
            return r
        return _not(r)

    def exp(self):
        s, co = trig(self.im)
        m = sym_exp(self.re)
        return SymC(m * co, m * s)

    def sqrt(self):
        """principal square root: w = u + i v, u >= 0, w^2 = z (v>=0 if u == 0)."""
        if self.im.c is not None and self.im.c == 0:
            x = self.re
            if x.c is not None:
                if x.c >= 0:
                    return SymC(sym_sqrt(x), 0)
                return SymC(0, sym_sqrt(-x))
            if x >= 0:
                return SymC(sym_sqrt(x), 0)
            return SymC(0, sym_sqrt(-x))
        c = ctx()
        u, v = c.fresh('csqrt_re'), c.fresh('csqrt_im')
        a, b = self.re.term(), self.im.term()
        c.add_axiom(u >= 0)
        c.add_axiom(u * u - v * v == a)
        c.add_axiom(2 * u * v == b)
        c.add_axiom(z3.Implies(u == 0, v >= 0))
        c.defs[str(u)] = ('csqrt_re', a, b)
        c.defs[str(v)] = ('csqrt_im', a, b)
        return SymC(SymR(u), SymR(v))

    def isfinite(self):
        return True

    def isnan(self):
        return False

    def square(self):
        return self * self


numbers.Complex.register(SymC)


def _and(a, b):
    if a is True:
        return b
    if b is True:
        return a
    if a is False or b is False:
        return False
    return mk_bool(z3.And(a.t, b.t))


def _or(a, b):
    if a is False:
        return b
    if b is False:
        return a
    if a is True or b is True:
        return True
    return mk_bool(z3.Or(a.t, b.t))


def _not(a):
    if a is True:
        return False
    if a is False:
        return True
    return SymB(z3.Not(a.t))


def as_term(x):
    """SymR / number -> z3 real term."""
    r = _lift_real(x)
    if r is None:
        raise SymxError(f"not a real scalar: {x!r} ({type(x)})")
    return r.term()


def bool_term(b):
    if isinstance(b, SymB):
        return b.t
    if isinstance(b, (bool, np.bool_)):
        return z3.BoolVal(bool(b))
    raise SymxError(f"not a boolean: {b!r}")


def is_sym(x):
    return isinstance(x, (SymR, SymC, SymB))


def parse_token(tok):
    """inverse of SymR.__format__"""
    c = ctx()
    if tok in c.tokens:
        return c.tokens[tok]
    return SymR(Fraction(tok))
