"""Exact symbolic DFT stand-in for numpy.fft.{fft,ifft,fft2,ifft2} on object arrays
(sizes 1..4 and 6 per axis: roots of unity in Q(i, sqrt 3)).  fftshift/ifftshift are NumPy's
own functions (pure index manipulation, work on object arrays)."""
import numpy as np

from . import core
from .core import SymC, SymR


def _roots(N):
    """[w^0, ..., w^(N-1)] with w = exp(2 pi i / N) as SymC (exact)."""
    if N == 1:
        return [SymC(1, 0)]
    if N == 2:
        return [SymC(1, 0), SymC(-1, 0)]
    if N == 4:
        return [SymC(1, 0), SymC(0, 1), SymC(-1, 0), SymC(0, -1)]
    if N in (3, 6):
        r3 = core.sym_sqrt(SymR(3))
        h = r3 / 2
        six = [SymC(1, 0), SymC(SymR(1) / 2, h), SymC(SymR(-1) / 2, h), SymC(-1, 0),
               SymC(SymR(-1) / 2, -h), SymC(SymR(1) / 2, -h)]
        return six if N == 6 else six[::2]
    if N == 8:
        h = core.sym_sqrt(SymR(2)) / 2
        return [SymC(1, 0), SymC(h, h), SymC(0, 1), SymC(-h, h), SymC(-1, 0), SymC(-h, -h), SymC(0, -1), SymC(h, -h)]
    if N == 12:
        r3 = core.sym_sqrt(SymR(3))
        h = r3 / 2
        half = SymR(1) / 2
        return [SymC(1, 0), SymC(h, half), SymC(half, h), SymC(0, 1), SymC(-half, h), SymC(-h, half),
                SymC(-1, 0), SymC(-h, -half), SymC(-half, -h), SymC(0, -1), SymC(half, -h), SymC(h, -half)]
    raise core.Unsupported(f"exact DFT stub: size {N} not supported (1,2,3,4,6,8,12)")


def _dft_axis(a, axis, inverse):
    a = np.asarray(a, dtype=object)
    N = a.shape[axis]
    w = _roots(N)
    out = np.empty(a.shape, dtype=object)
    am = np.moveaxis(a, axis, 0)
    om = np.moveaxis(out, axis, 0)
    for k in range(N):
        acc = None
        for n in range(N):
            e = (k * n) % N
            if not inverse:
                e = (-e) % N
            term = am[n] * w[e]
            acc = term if acc is None else acc + term
        om[k] = acc / N if inverse else acc
    return out


def _lift(a):
    a = np.asarray(a)
    if a.dtype != object:
        o = np.empty(a.shape, dtype=object)
        for i, v in np.ndenumerate(a):
            o[i] = core._lift_cplx(complex(v)) if np.iscomplexobj(a) else core._lift_real(v)
        return o
    return a


class FFTStub:
    def __init__(self):
        self.calls = []

    def fft2(self, a, s=None, axes=(-2, -1), norm=None):
        self.calls.append(('fft2', tuple(axes)))
        a = _lift(a)
        for ax in axes:
            a = _dft_axis(a, ax, False)
        return a

    def ifft2(self, a, s=None, axes=(-2, -1), norm=None):
        self.calls.append(('ifft2', tuple(axes)))
        a = _lift(a)
        for ax in axes:
            a = _dft_axis(a, ax, True)
        return a

    def fft(self, a, n=None, axis=-1, norm=None):
        self.calls.append(('fft', axis))
        return _dft_axis(_lift(a), axis, False)

    def ifft(self, a, n=None, axis=-1, norm=None):
        self.calls.append(('ifft', axis))
        return _dft_axis(_lift(a), axis, True)

    def fftshift(self, x, axes=None):
        self.calls.append(('fftshift', axes))
        return np.fft.fftshift(x, axes=axes)

    def ifftshift(self, x, axes=None):
        self.calls.append(('ifftshift', axes))
        return np.fft.ifftshift(x, axes=axes)

    def fftfreq(self, *a, **k):
        return np.fft.fftfreq(*a, **k)
