"""Float evaluation of z3 terms built by symx.core, using the recorded
definitions of the fresh variables.  Used for (a) validating the symbolic
encoding against the real float run and (b) completing solver models."""
import math
from fractions import Fraction

import z3


class FEvalError(Exception):
    pass


class FEval:
    def __init__(self, c, env):
        """c: symx Ctx; env: {input name -> float}"""
        self.c = c
        self.env = dict(env)
        self.memo = {}

    def var(self, name):
        if name in self.env:
            return self.env[name]
        d = self.c.defs.get(name)
        if d is None:
            raise FEvalError(f"no value or definition for {name}")
        kind = d[0]
        if kind == 'const':
            v = d[1]
        elif kind == 'sqrt':
            v = math.sqrt(max(self.ev(d[1]), 0.0))
        elif kind == 'cbrt':
            v0 = self.ev(d[1])
            v = math.copysign(abs(v0) ** (1.0 / 3.0), v0)
        elif kind == 'mod':
            v = self.ev(d[1]) % self.ev(d[2])
        elif kind == 'modk':
            v = math.floor(self.ev(d[1]) / self.ev(d[2]))
        elif kind == 'tanhalf':
            th = self.ev(d[1])
            if d[2]:
                th = th + math.pi
            v = math.tan(th / 2)
        elif kind == 'sin':
            v = math.sin(self.ev(d[1]))
        elif kind == 'cos':
            v = math.cos(self.ev(d[1]))
        elif kind == 'atan2':
            v = math.atan2(self.ev(d[1]), self.ev(d[2]))
        elif kind == 'atan':
            v = math.atan(self.ev(d[1]))
        elif kind == 'asin':
            v = math.asin(max(-1.0, min(1.0, self.ev(d[1]))))
        elif kind == 'acos':
            v = math.acos(self.ev(d[1]))
        elif kind == 'wind':
            v = round((self.ev(d[1]) - self.ev(d[2])) / (2 * math.pi))
        elif kind in ('csqrt_re', 'csqrt_im'):
            import cmath
            w = cmath.sqrt(complex(self.ev(d[1]), self.ev(d[2])))
            v = w.real if kind == 'csqrt_re' else w.imag
        elif kind == 'term':
            v = self.ev(d[1])
        else:
            raise FEvalError(f"unknown definition kind {kind}")
        self.env[name] = v
        return v

    def ev(self, t):
        k = t.get_id()
        if k in self.memo:
            return self.memo[k]
        v = self._ev(t)
        self.memo[k] = v
        return v

    def _ev(self, t):
        if z3.is_rational_value(t):
            return t.numerator_as_long() / t.denominator_as_long()
        if z3.is_int_value(t):
            return t.as_long()
        if z3.is_true(t):
            return True
        if z3.is_false(t):
            return False
        if not z3.is_app(t):
            raise FEvalError(f"cannot evaluate {t}")
        d = t.decl()
        k = d.kind()
        ch = t.children()
        if k == z3.Z3_OP_UNINTERPRETED:
            if not ch:
                return self.var(d.name())
            f = self.c.uf.get(d.name())
            if f is None:
                raise FEvalError(f"no implementation for {d.name()}")
            return f[2](*[self.ev(x) for x in ch])
        if k == z3.Z3_OP_ADD:
            return sum(self.ev(x) for x in ch)
        if k == z3.Z3_OP_SUB:
            v = self.ev(ch[0])
            for x in ch[1:]:
                v -= self.ev(x)
            return v
        if k == z3.Z3_OP_UMINUS:
            return -self.ev(ch[0])
        if k == z3.Z3_OP_MUL:
            v = 1.0
            for x in ch:
                v *= self.ev(x)
            return v
        if k == z3.Z3_OP_DIV:
            a, b = self.ev(ch[0]), self.ev(ch[1])
            if b == 0:
                return float('nan')
            return a / b
        if k == z3.Z3_OP_IDIV:
            return self.ev(ch[0]) // self.ev(ch[1])
        if k == z3.Z3_OP_MOD:
            return self.ev(ch[0]) % self.ev(ch[1])
        if k == z3.Z3_OP_POWER:
            return self.ev(ch[0]) ** self.ev(ch[1])
        if k == z3.Z3_OP_TO_REAL:
            return float(self.ev(ch[0]))
        if k == z3.Z3_OP_TO_INT:
            return math.floor(self.ev(ch[0]))
        if k == z3.Z3_OP_ITE:
            return self.ev(ch[1]) if self.ev(ch[0]) else self.ev(ch[2])
        if k == z3.Z3_OP_AND:
            return all(self.ev(x) for x in ch)
        if k == z3.Z3_OP_OR:
            return any(self.ev(x) for x in ch)
        if k == z3.Z3_OP_NOT:
            return not self.ev(ch[0])
        if k == z3.Z3_OP_IMPLIES:
            return (not self.ev(ch[0])) or self.ev(ch[1])
        if k == z3.Z3_OP_EQ:
            return self.ev(ch[0]) == self.ev(ch[1])
        if k == z3.Z3_OP_DISTINCT:
            vs = [self.ev(x) for x in ch]
            return len(set(vs)) == len(vs)
        if k == z3.Z3_OP_LE:
            return self.ev(ch[0]) <= self.ev(ch[1])
        if k == z3.Z3_OP_LT:
            return self.ev(ch[0]) < self.ev(ch[1])
        if k == z3.Z3_OP_GE:
            return self.ev(ch[0]) >= self.ev(ch[1])
        if k == z3.Z3_OP_GT:
            return self.ev(ch[0]) > self.ev(ch[1])
        raise FEvalError(f"unsupported op {d.name()} in {t}")


def model_value(m, v):
    """z3 model value of a Real/Int const -> float (None if absent)."""
    x = m.eval(v, model_completion=False)
    if z3.is_rational_value(x):
        return x.numerator_as_long() / x.denominator_as_long()
    if z3.is_int_value(x):
        return float(x.as_long())
    if z3.is_algebraic_value(x):
        a = x.approx(20)
        return a.numerator_as_long() / a.denominator_as_long()
    return None
