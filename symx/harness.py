"""Obligations, sessions (symbolic / concrete), path exploration, proving,
encoding validation, replay, evidence."""
from __future__ import annotations

import json
import math
import os
import random
import sys
import time
import traceback
from fractions import Fraction

import numpy as np
import z3

from . import core, feval, solve
from .core import SymR, SymC, SymB, PathInfeasible, PathBudget

VERIF = os.path.dirname(os.path.dirname(os.path.abspath(__file__)))
REPLAY_DIR = os.path.join(VERIF, 'replays')


class Discard(BaseException):
    """concrete run: inputs outside the harness precondition"""


# --------------------------------------------------------------------------
# obligations registry
# --------------------------------------------------------------------------

class Obligation:
    def __init__(self, id, body, *, functions, bounds, tier='quick', angle_mode='chart',
                 charts='both', max_paths=64, timeout_s=60, wall_s=900, nvalid=3,
                 stubs=(), notes='', outside='', witness=True, feas_timeout_ms=3000,
                 expect_paths_min=1, kind='symx', cost=1, batch=12):
        self.id = id
        self.body = body
        self.functions = list(functions)
        self.bounds = bounds
        self.tier = tier
        self.angle_mode = angle_mode
        self.charts = charts
        self.max_paths = max_paths
        self.timeout_s = timeout_s
        self.wall_s = wall_s
        self.nvalid = nvalid
        self.stubs = list(stubs)
        self.notes = notes
        self.outside = outside
        self.witness = witness
        self.feas_timeout_ms = feas_timeout_ms
        self.kind = kind
        self.cost = cost
        self.batch = batch


def obligation(id, **kw):
    def deco(fn):
        mod = sys.modules[fn.__module__]
        if not hasattr(mod, 'OBLIGATIONS'):
            mod.OBLIGATIONS = []
        mod.OBLIGATIONS.append(Obligation(id, fn, **kw))
        return fn
    return deco


# --------------------------------------------------------------------------
# sessions
# --------------------------------------------------------------------------

class _PatchMixin:
    def _init_patches(self):
        self._undo = []

    def patch(self, obj, attr, val, both=False):
        """Rebind obj.attr for the duration of this run.  By default only in
        symbolic mode (shims); both=True also in concrete mode (kernel stubs)."""
        if not self.sym and not both:
            return
        missing = object()
        old = getattr(obj, attr, missing) if not isinstance(obj, dict) else obj.get(attr, missing)
        if isinstance(obj, dict):
            obj[attr] = val
            self._undo.append(('d', obj, attr, old, missing))
        else:
            setattr(obj, attr, val)
            self._undo.append(('a', obj, attr, old, missing))

    def undo_patches(self):
        for kind, obj, attr, old, missing in reversed(self._undo):
            try:
                if kind == 'd':
                    if old is missing:
                        obj.pop(attr, None)
                    else:
                        obj[attr] = old
                else:
                    if old is missing:
                        delattr(obj, attr)
                    else:
                        setattr(obj, attr, old)
            except Exception:
                pass
        self._undo = []


class SymSession(_PatchMixin):
    sym = True

    def __init__(self, c):
        self.c = c
        self.claims = []        # (name, z3 Bool)
        self.obs = []           # (name, term or (re, im))
        self.specs = {}
        self._init_patches()

    @property
    def pi(self):
        return self.c.get_pi()

    def real(self, name, lo=None, hi=None, pos=False, nonzero=False):
        self.specs[name] = dict(lo=lo, hi=hi, pos=pos, nonzero=nonzero, kind='real')
        return self.c.real(name, lo=lo, hi=hi, pos=pos, nonzero=nonzero)

    def angle(self, name, lo=None, hi=None):
        """real input used as an angle; lo/hi are multiples of pi (Fractions/ints)"""
        self.specs[name] = dict(lo=lo, hi=hi, kind='angle')
        v = self.c.real(name)
        if lo is not None:
            self.c.assume(v.term() >= core._q(lo) * self.c.get_pi().term(), f"{name} >= {lo}*pi")
        if hi is not None:
            self.c.assume(v.term() <= core._q(hi) * self.c.get_pi().term(), f"{name} <= {hi}*pi")
        return v

    def cplx(self, name):
        return SymC(self.real(name + '.re'), self.real(name + '.im'))

    def func(self, name, arity, impl=None):
        return self.c.func(name, arity, impl)

    def cfunc(self, name, arity, impl=None):
        fr = self.func(name + '.re', arity, impl)
        fi = self.func(name + '.im', arity, impl)
        return lambda *a: SymC(fr(*a), fi(*a))

    def assume(self, cond, text=None):
        if isinstance(cond, (bool, np.bool_)):
            if not cond:
                raise PathInfeasible()
            return
        self.c.assume(cond, text)

    def claim(self, name, cond):
        if isinstance(cond, (bool, np.bool_)):
            self.claims.append((name, z3.BoolVal(bool(cond))))
        elif isinstance(cond, SymB):
            self.claims.append((name, cond.t))
        elif z3.is_bool(cond):
            self.claims.append((name, cond))
        else:
            raise core.SymxError(f"claim {name}: not boolean: {cond!r}")

    def claim_eq(self, name, a, b, scale=None):
        a, b = _arr(a), _arr(b)
        if a.shape != b.shape:
            try:
                a, b = np.broadcast_arrays(a, b)
            except ValueError:
                self.claims.append((name + '.shape', z3.BoolVal(False)))
                return
        if a.size == 1:
            self._eq1(name, a.reshape(-1)[0], b.reshape(-1)[0])
            return
        for idx in np.ndindex(a.shape):
            self._eq1(f"{name}{list(idx)}", a[idx], b[idx])

    def _eq1(self, name, x, y):
        if _is_cplx(x) or _is_cplx(y):
            xc, yc = core._lift_cplx(x), core._lift_cplx(y)
            self.claims.append((name + '.re', xc.re.term() == yc.re.term()))
            self.claims.append((name + '.im', xc.im.term() == yc.im.term()))
        else:
            if core._is_inf(x) or core._is_inf(y):
                self.claims.append((name, z3.BoolVal(core._is_inf(x) and core._is_inf(y) and float(x) == float(y))))
                return
            if isinstance(x, (float, np.floating)) and isinstance(y, (float, np.floating)):
                # two machine floats computed by different operation orders: equal up to rounding (floats are
                # modelled as reals; bit-equality of concrete float arithmetic is not part of any property)
                fx, fy = float(x), float(y)
                ok = (fx == fy) or abs(fx - fy) <= 1e-9 * max(1.0, abs(fx), abs(fy))
                self.claims.append((name, z3.BoolVal(bool(ok))))
                return
            self.claims.append((name, core.as_term(x) == core.as_term(y)))

    def claim_is(self, name, a, b):
        self.claims.append((name, z3.BoolVal(a is b)))

    def claim_le(self, name, a, b):
        """a <= b (decided in R; the concrete replay allows rounding slack)"""
        self.claim(name, a <= b)

    def claim_ge(self, name, a, b):
        self.claim(name, a >= b)

    def claim_iff(self, name, concrete, cond):
        """concrete (a bool the real code returned on this path) <=> cond"""
        concrete = bool(concrete)
        if isinstance(cond, (bool, np.bool_)):
            self.claims.append((name, z3.BoolVal(bool(cond) == concrete)))
        else:
            t = core.bool_term(cond)
            self.claims.append((name, t if concrete else z3.Not(t)))

    def observe(self, name, v):
        v = _arr(v)
        for i, x in enumerate(v.reshape(-1)):
            nm = name if v.size == 1 else f"{name}[{i}]"
            if _is_cplx(x):
                xc = core._lift_cplx(x)
                self.obs.append((nm + '.re', xc.re.term()))
                self.obs.append((nm + '.im', xc.im.term()))
            elif isinstance(x, SymB):
                self.obs.append((nm, x.t))
            elif isinstance(x, (bool, np.bool_)):
                self.obs.append((nm, z3.BoolVal(bool(x))))
            elif core._is_inf(x):
                self.obs.append((nm, ('inf', float(x))))
            else:
                self.obs.append((nm, core.as_term(x)))

    def note(self, text):
        if text not in self.c.notes:
            self.c.notes.append(text)


class ConcSession(_PatchMixin):
    sym = False

    def __init__(self, env, uf_tables=None):
        self.env = env
        self.claims = []      # (name, ok, discrepancy)
        self.obs = []         # (name, float)
        self.uf_tables = uf_tables or {}
        self._init_patches()
        self.pi = math.pi

    def real(self, name, lo=None, hi=None, pos=False, nonzero=False):
        if name not in self.env or self.env[name] is None:
            self.env[name] = 0.5 if not pos else 1.5
        v = float(self.env[name])
        if (lo is not None and v < lo) or (hi is not None and v > hi) or (pos and v <= 0) or (nonzero and v == 0):
            raise Discard(name)
        return v

    def angle(self, name, lo=None, hi=None):
        if name not in self.env or self.env[name] is None:
            self.env[name] = 0.5
        v = float(self.env[name])
        if (lo is not None and v < float(lo) * math.pi) or (hi is not None and v > float(hi) * math.pi):
            raise Discard(name)
        return v

    def cplx(self, name):
        return complex(self.real(name + '.re'), self.real(name + '.im'))

    def func(self, name, arity, impl=None):
        base = impl or core.default_impl(name)
        table = self.uf_tables.get(name)
        if not table:
            return lambda *a: float(base(*[float(x) for x in a]))

        def f(*a):
            a = [float(x) for x in a]
            best, bd = None, None
            for args, val in table['entries']:
                d = max((abs(p - q) / (1 + abs(q)) for p, q in zip(a, args)), default=0)
                if bd is None or d < bd:
                    best, bd = val, d
            if bd is not None and bd < 1e-6:
                return best
            if table.get('else') is not None:
                return table['else']
            return float(base(*a))
        return f

    def cfunc(self, name, arity, impl=None):
        fr = self.func(name + '.re', arity, impl)
        fi = self.func(name + '.im', arity, impl)
        return lambda *a: complex(fr(*a), fi(*a))

    def assume(self, cond, text=None):
        if not bool(cond):
            raise Discard(text or 'assume')

    def claim(self, name, cond):
        self.claims.append((name, bool(cond), None))

    def claim_eq(self, name, a, b, scale=None):
        a = np.asarray(a)
        b = np.asarray(b)
        if a.shape != b.shape:
            try:
                a, b = np.broadcast_arrays(a, b)
            except ValueError:
                self.claims.append((name + '.shape', False, float('inf')))
                return
        if a.size == 1:
            self._eq1(name, a.reshape(-1)[0], b.reshape(-1)[0], scale)
            return
        for idx in np.ndindex(a.shape):
            self._eq1(f"{name}{list(idx)}", a[idx], b[idx], scale)

    def _eq1(self, name, x, y, scale):
        if isinstance(x, (complex, np.complexfloating)) or isinstance(y, (complex, np.complexfloating)):
            x, y = complex(x), complex(y)
            for part, p, q in (('.re', x.real, y.real), ('.im', x.imag, y.imag)):
                self._eqr(name + part, p, q, scale if scale else max(1.0, abs(x), abs(y)))
        else:
            self._eqr(name, float(x), float(y), scale)

    def _eqr(self, name, p, q, scale):
        if math.isinf(p) or math.isinf(q):
            self.claims.append((name, p == q, 0.0 if p == q else float('inf')))
            return
        if math.isnan(p) or math.isnan(q):
            self.claims.append((name, False, float('nan')))
            return
        sc = scale if scale else max(1.0, abs(p), abs(q))
        d = abs(p - q) / sc
        self.claims.append((name, d <= 1e-6, d))

    def claim_is(self, name, a, b):
        self.claims.append((name, a is b, None))

    def claim_le(self, name, a, b):
        a, b = float(a), float(b)
        tol = 1e-9 * max(1.0, abs(a), abs(b))
        self.claims.append((name, a <= b + tol, max(0.0, a - b)))

    def claim_ge(self, name, a, b):
        self.claim_le(name, b, a)

    def claim_iff(self, name, concrete, cond):
        self.claims.append((name, bool(concrete) == bool(cond), None))

    def observe(self, name, v):
        v = np.asarray(v)
        for i, x in enumerate(v.reshape(-1)):
            nm = name if v.size == 1 else f"{name}[{i}]"
            if isinstance(x, (complex, np.complexfloating)):
                self.obs.append((nm + '.re', float(x.real)))
                self.obs.append((nm + '.im', float(x.imag)))
            elif isinstance(x, (bool, np.bool_)):
                self.obs.append((nm, bool(x)))
            else:
                self.obs.append((nm, float(x)))

    def note(self, text):
        pass


def _is_cplx(x):
    return isinstance(x, (SymC, complex, np.complexfloating))


def _arr(a):
    if type(a).__name__ == 'DataArray':
        a = a.values
    if isinstance(a, np.ndarray):
        return a
    if isinstance(a, (list, tuple)):
        out = np.empty(len(a), dtype=object)
        flat = True
        for x in a:
            if isinstance(x, (list, tuple, np.ndarray)):
                flat = False
        if flat:
            for i, x in enumerate(a):
                out[i] = x
            return out
        return np.array(a, dtype=object)
    out = np.empty((), dtype=object)
    out[()] = a
    return out


# --------------------------------------------------------------------------
# running one obligation
# --------------------------------------------------------------------------

def _raised_in_repo(e):
    """True when the innermost frame of the traceback is in the code under test
    (or a library it called), False when the harness body itself raised."""
    tb = e.__traceback__
    frames = traceback.extract_tb(tb)
    if not frames:
        return False
    in_repo = [f for f in frames if f.filename.startswith('/repo/')]
    last = frames[-1].filename
    if last.startswith('/verif/props/'):
        return False
    return bool(in_repo)


class PathResult:
    def __init__(self, c, sess, chart):
        self.c = c
        self.sess = sess
        self.chart = chart


def explore_iter(ob, anti_all, stats):
    """Depth-first path exploration of ob.body; yields PathResult per feasible path."""
    work = [[]]
    while work:
        if stats['paths'] >= ob.max_paths:
            stats['budget_hit'] = True
            break
        sched = work.pop()
        c = core.Ctx(schedule=sched, angle_mode=ob.angle_mode, anti_all=anti_all,
                     feas_timeout_ms=ob.feas_timeout_ms)
        core.activate(c)
        S = SymSession(c)
        ok = True
        exc = None
        try:
            ob.body(S)
        except PathInfeasible:
            ok = False
            stats['infeasible'] += 1
        except core.SymxError:
            raise
        except Exception as e:      # the code under test raised on this path
            if not _raised_in_repo(e):
                raise
            exc = (type(e).__name__, repr(e)[:300], traceback.format_exc()[-2500:])
        finally:
            S.undo_patches()
            core.activate(None)
        work.extend(c.pending)
        stats['decisions'] += len(c.decisions)
        stats['feas_queries'] += c.n_feas_queries
        stats['feas_unknown'] += c.feas_unknown
        if ok:
            stats['paths'] += 1
            pr = PathResult(c, S, 'anti' if anti_all else 'std')
            pr.exc = exc
            yield pr


def new_stats():
    return dict(paths=0, infeasible=0, decisions=0, feas_queries=0, feas_unknown=0, budget_hit=False)


def explore(ob, anti_all=False):
    stats = new_stats()
    paths = list(explore_iter(ob, anti_all, stats))
    return paths, stats


def run_concrete(ob, env, uf_tables=None):
    S = ConcSession(dict(env), uf_tables)
    try:
        with np.errstate(all='ignore'):
            ob.body(S)
    finally:
        S.undo_patches()
    return S


def sample_env(ob, specs, rng):
    env = {}
    for name, sp in specs.items():
        if sp['kind'] == 'angle':
            lo = float(sp['lo']) * math.pi if sp['lo'] is not None else -3.0
            hi = float(sp['hi']) * math.pi if sp['hi'] is not None else 3.0
            env[name] = rng.uniform(lo + 1e-3 * (hi - lo), hi - 1e-3 * (hi - lo))
            continue
        lo, hi = sp['lo'], sp['hi']
        if lo is not None and hi is not None:
            env[name] = rng.uniform(float(lo), float(hi))
        elif sp['pos'] or (lo is not None and lo >= 0):
            # mostly moderate values, sometimes many decades away (size-dependent branches)
            spread = 1.2 if rng.random() < 0.7 else 7.0
            env[name] = (float(lo) if lo else 0.0) + math.exp(rng.uniform(-spread, spread))
        elif lo is not None:
            env[name] = float(lo) + math.exp(rng.uniform(-1.2, 1.2))
        elif hi is not None:
            env[name] = float(hi) - math.exp(rng.uniform(-1.2, 1.2))
        else:
            env[name] = rng.uniform(-2.0, 2.0)
    return env


def match_path(paths, env):
    """the explored path whose conditions hold under env (float evaluation)"""
    for p in paths:
        fe = feval.FEval(p.c, env)
        try:
            ok = all(fe.ev(t) for t in p.c.path) and all(fe.ev(t) for t, _ in p.c.assumptions)
        except (feval.FEvalError, ZeroDivisionError, OverflowError, ValueError):
            ok = False
        if ok:
            return p, fe
    return None, None


def validate(ob, paths, seed, n):
    """encoding validation: float evaluation of the symbolic observations and
    claims vs. the real float run.  returns (n_validated, mismatches, conc_violations)"""
    if not paths or n <= 0:
        return 0, [], []
    rng = random.Random(seed)
    specs = paths[0].sess.specs
    done, mism, viol = 0, [], []
    attempts = 0
    while done < n and attempts < 60 * n:
        attempts += 1
        env = sample_env(ob, specs, rng)
        p, fe = match_path(paths, env)
        if p is None or getattr(p, 'exc', None) is not None:
            continue
        try:
            S = run_concrete(ob, env)
        except Discard:
            continue
        except Exception as e:
            mism.append(dict(kind='concrete-exception', env=env, error=repr(e),
                             tb=traceback.format_exc()[-1500:]))
            break
        conc = dict(S.obs)
        nobs = 0
        for name, term in p.sess.obs:
            if name not in conc:
                mism.append(dict(kind='missing-observation', name=name))
                continue
            if isinstance(term, tuple):
                sv = term[1]
            else:
                try:
                    sv = fe.ev(term)
                except (feval.FEvalError, ZeroDivisionError, OverflowError, ValueError) as e:
                    mism.append(dict(kind='feval-error', name=name, error=repr(e)))
                    continue
            cv = conc[name]
            nobs += 1
            if isinstance(sv, bool) or isinstance(cv, bool):
                if bool(sv) != bool(cv):
                    mism.append(dict(kind='value', name=name, sym=sv, conc=cv, env=env))
                continue
            sc = max(1.0, abs(cv))
            if not (abs(sv - cv) <= 1e-6 * sc):
                mism.append(dict(kind='value', name=name, sym=sv, conc=cv, env=env))
        for name, ok, d in S.claims:
            if not ok:
                viol.append(dict(claim=name, env=env, discrepancy=d))
        done += 1
    return done, mism, viol


def derive_env(c, m):
    """solver model -> float values for the harness inputs, making angle inputs
    consistent with the chart / sin-cos atoms chosen by the solver."""
    env = solve.model_env(c, m)
    for name, d in c.defs.items():
        kind = d[0]
        if kind == 'tanhalf':
            tv = feval.model_value(m, z3.Real(name))
            if tv is None:
                continue
            th = 2 * math.atan(tv) + (math.pi if d[2] else 0.0)
            _assign_angle(c, env, d[1], th, m)
    # sin/cos atoms
    sins = {str(d[1]): n for n, d in c.defs.items() if d[0] == 'sin'}
    for name, d in c.defs.items():
        if d[0] == 'cos' and str(d[1]) in sins:
            sv = feval.model_value(m, z3.Real(sins[str(d[1])]))
            cv = feval.model_value(m, z3.Real(name))
            if sv is None or cv is None:
                continue
            _assign_angle(c, env, d[1], math.atan2(sv, cv), m)
    for k, v in list(env.items()):
        if v is None:
            env[k] = None
    return env


def _assign_angle(c, env, base_term, value, m):
    """base_term == value (mod 2 pi): if base_term is input, input/d or input*pi/d,
    set the input accordingly (keeping the model's winding when it has one)."""
    t = z3.simplify(base_term)
    scale = 1.0
    pifac = False
    parts, const = core._decompose(t, c, for_trig=False)
    if const != 0 or len(parts) != 1:
        return
    (atom, q), = parts.values()
    scale = float(q)
    name = None
    if z3.is_const(atom) and str(atom) in c.inputs:
        name = str(atom)
    elif z3.is_app(atom) and atom.decl().kind() == z3.Z3_OP_MUL:
        ch = atom.children()
        names = [str(x) for x in ch]
        if len(ch) == 2 and 'pi' in names:
            other = names[1 - names.index('pi')]
            if other in c.inputs:
                name = other
                pifac = True
    if name is None:
        return
    mv = env.get(name)
    val = value / scale
    period = 2 * math.pi / abs(scale)
    if pifac:
        val /= math.pi
        period /= math.pi
    if mv is not None:
        k = round((mv - val) / period)
        val += k * period
    env[name] = val


def uf_tables_from_model(c, m):
    tables = {}
    for name, (f, arity, impl) in c.uf.items():
        fi = m[f]
        if fi is None:
            continue
        entries = []
        try:
            for i in range(fi.num_entries()):
                e = fi.entry(i)
                args = [_num(e.arg_value(j)) for j in range(arity)]
                val = _num(e.value())
                if None in args or val is None:
                    continue
                entries.append((args, val))
            els = _num(fi.else_value())
        except Exception:
            continue
        tables[name] = dict(entries=entries, **{'else': els})
    return tables


def _num(x):
    if z3.is_rational_value(x):
        return x.numerator_as_long() / x.denominator_as_long()
    if z3.is_int_value(x):
        return float(x.as_long())
    if z3.is_algebraic_value(x):
        a = x.approx(20)
        return a.numerator_as_long() / a.denominator_as_long()
    return None


def _concrete_probe(ob, p, env, res, tag):
    """Run the unmodified float code on `env`; compare observations with the
    symbolic encoding of path p and collect failing claims.  Returns True when the
    run counted as a validation."""
    fe = feval.FEval(p.c, env)
    try:
        on_path = all(fe.ev(t) for t in p.c.path) and all(fe.ev(t) for t, _ in p.c.assumptions)
    except (feval.FEvalError, ZeroDivisionError, OverflowError, ValueError):
        on_path = False
    try:
        S = run_concrete(ob, env)
    except Discard:
        return False
    except Exception as e:
        if getattr(p, 'exc', None) is not None and type(e).__name__ == p.exc[0]:
            return False
        if on_path:
            res['errors'].append(f"encoding mismatch ({tag}): concrete run raised {e!r} on a path that did not; "
                                 f"env={env}\n{traceback.format_exc()[-1500:]}")
        return False
    if on_path and getattr(p, 'exc', None) is None:
        conc = dict(S.obs)
        for name, term in p.sess.obs:
            if name not in conc:
                continue
            try:
                sv = term[1] if isinstance(term, tuple) else fe.ev(term)
            except (feval.FEvalError, ZeroDivisionError, OverflowError, ValueError):
                continue
            cv = conc[name]
            if isinstance(sv, bool) or isinstance(cv, bool):
                bad = bool(sv) != bool(cv)
            else:
                bad = not (abs(sv - cv) <= 1e-6 * max(1.0, abs(cv)))
            if bad:
                res['errors'].append(f"encoding mismatch ({tag}): {name}: symbolic {sv} vs concrete {cv}; env={env}")
                break
    known = getattr(ob, 'known_claims', None) or []
    for name, ok, d in S.claims:
        if not ok and any(name == k or name.startswith(k) for k in known):
            continue        # listed known finding: reported once through the solver path, not by every probe
        if not ok:
            # a float probe only counts when the solver confirms, on this very instance, that the
            # claim fails by a margin (rules out rounding artefacts at ill-conditioned inputs)
            verdict = _confirm_probe(p, env, fe, name) if on_path else 'off-path'
            if verdict == 'solver-unknown' and tag.startswith('random-probe') and \
                    (d is None or (d == d and d > 1e-4)):
                # moderate random inputs and a discrepancy far above rounding level: accepted
                verdict = 'confirmed'
            if verdict != 'confirmed':
                res['notes'].append(f"float probe ({tag}) failed claim {name} but was not confirmed by the solver "
                                    f"({verdict}); discrepancy={d}")
                break
            res['violations'].append(dict(claim=name, env=env, uf_tables={}, discrepancy=d, failed=[name],
                                          found_by=tag))
            res['claims'].append(dict(name=name, path=-1, chart=p.chart, verdict='violated', s=0.0,
                                      engine='float-probe + z3 instance confirmation + replay'))
            break
    return on_path


def _strong_negation(claim, tol=1e-7):
    """negation of a claim with a margin: a == b  ->  |a-b| > tol*max(1,|a|,|b|) ; a <= b -> a > b + tol"""
    t = claim
    if z3.is_eq(t) and z3.is_real(t.arg(0)) or (z3.is_eq(t) and z3.is_int(t.arg(0))):
        a, b = t.arg(0), t.arg(1)
        d = a - b
        ad = z3.If(d >= 0, d, -d)
        sa = z3.If(a >= 0, a, -a)
        return ad > z3.Q(1, 10 ** 7) * (1 + sa)
    if z3.is_le(t):
        return t.arg(0) > t.arg(1) + z3.Q(1, 10 ** 7)
    if z3.is_ge(t):
        return t.arg(0) < t.arg(1) - z3.Q(1, 10 ** 7)
    return z3.Not(t)


def _confirm_probe(p, env, fe, name):
    claim = None
    for nm, cl in p.sess.claims:
        if nm == name:
            claim = cl
            break
    if claim is None:
        return 'no-symbolic-counterpart'
    if z3.is_false(z3.simplify(claim)):
        return 'confirmed'          # the claim is literally false on this path
    c = p.c
    s = z3.Solver()
    s.set('timeout', 8000)
    s.add(*c.all_constraints())
    for nm, v in c.inputs.items():
        val = env.get(nm)
        if val is None:
            continue
        f = Fraction(float(val))
        s.add(v == z3.Q(f.numerator, f.denominator))
    # pin every derived variable (sqrt, sin/cos atoms, atan2, mod ...) to its float evaluation
    for nm, d in c.defs.items():
        if d[0] in ('const',):
            continue
        try:
            fv = fe.var(nm)
        except Exception:
            continue
        if isinstance(fv, bool) or fv is None or fv != fv:
            continue
        var = z3.Int(nm) if d[0] in ('modk', 'wind') else z3.Real(nm)
        if d[0] in ('modk', 'wind'):
            s.add(var == int(fv))
            continue
        f = Fraction(float(fv))
        eps = Fraction(1, 10 ** 9) * (1 + abs(f))
        s.add(var >= z3.Q((f - eps).numerator, (f - eps).denominator))
        s.add(var <= z3.Q((f + eps).numerator, (f + eps).denominator))
    s.add(_strong_negation(claim))
    r = s.check()
    if r == z3.sat:
        return 'confirmed'
    if r == z3.unsat:
        return 'refuted-by-solver (rounding artefact)'
    return 'solver-unknown'


def _n_new(res, ob):
    """violations that are not listed as known findings (those never stop the exploration)"""
    pats = getattr(ob, 'known_claims', None) or []
    return sum(1 for v in res['violations']
               if not any(v['claim'] == p or v['claim'].startswith(p) for p in pats))


def run_obligation(ob, seed=0, timeout_scale=1.0):
    t0 = time.time()
    res = dict(id=ob.id, verdict='held', claims=[], paths=0, decisions=0, queries=0,
               solver_s=0.0, validated=0, functions=ob.functions, bounds=ob.bounds,
               stubs=ob.stubs, outside=ob.outside, notes=[ob.notes] if ob.notes else [],
               assumptions=[], violations=[], undecided=[], errors=[], infeasible_paths=0,
               vacuity_checked=0, angle_mode=ob.angle_mode, charts=[], inputs=[])
    rng = random.Random(seed)
    budget_s = ob.wall_s * 0.8
    seen_assump = set()
    sample_claims = []
    batch_fail = 0
    npaths_total = 0
    n_vacuous = 0
    first_specs = None
    try:
        chart_runs = [False]
        if ob.angle_mode == 'chart' and ob.charts == 'both':
            chart_runs = [False, True]
        stop = False
        for anti_all in chart_runs:
            if stop:
                break
            st = new_stats()
            any_angles = False
            chart_name = 'antipodal' if anti_all else 'standard'
            for p in explore_iter(ob, anti_all, st):
                pi_ = npaths_total
                npaths_total += 1
                c = p.c
                if c.base_order:
                    any_angles = True
                elif anti_all:
                    # no angle on this path: identical to the standard-chart run
                    continue
                if first_specs is None:
                    first_specs = p.sess.specs
                    res['inputs'] = sorted(c.inputs)
                cons = c.all_constraints()
                for _, text in c.assumptions:
                    seen_assump.add(text)
                # vacuity twin (also gives a model that follows this path)
                s = z3.Solver()
                s.set('timeout', int(10000 * timeout_scale))
                s.add(*cons)
                r = s.check()
                res['queries'] += 1
                if r == z3.unsat:
                    # the branch looked feasible (solver said unknown) when it was taken
                    # but its full constraint set is unsatisfiable: a late-pruned path
                    res['infeasible_paths'] += 1
                    n_vacuous += 1
                    continue
                path_env = None
                if r == z3.sat:
                    res['vacuity_checked'] += 1
                    try:
                        path_env = derive_env(c, s.model())
                    except Exception:
                        path_env = None
                if getattr(p, 'exc', None) is not None:
                    env = path_env or {}
                    cname = 'no_unexpected_exception:' + p.exc[0]
                    try:
                        run_concrete(ob, env)
                        res['errors'].append(f"path {pi_}: exception only in symbolic mode: {p.exc[1]}\n{p.exc[2]}")
                    except Discard:
                        res['errors'].append(f"path {pi_}: symbolic exception, concrete inputs discarded: "
                                             f"{p.exc[1]}\n{p.exc[2]}")
                    except Exception as e2:
                        if type(e2).__name__ == p.exc[0]:
                            res['violations'].append(dict(claim=cname, env=env, uf_tables={}, discrepancy=None,
                                                          failed=[cname], extra=dict(exception=repr(e2)[:300])))
                            res['claims'].append(dict(name=cname, path=pi_, chart=p.chart, verdict='violated',
                                                      s=0.0, engine='replay'))
                        else:
                            res['errors'].append(f"path {pi_}: symbolic {p.exc[1]} vs concrete {e2!r}\n{p.exc[2]}")
                    if _n_new(res, ob) >= 2:
                        stop = True
                        break
                    continue
                if not p.sess.claims:
                    res['errors'].append(f"path {pi_} made no claim")
                # cheap float probes of the real code first: the path's own model, then random inputs
                if p.chart == 'std' and ob.nvalid:
                    nv = 0
                    if path_env is not None and not c.uf:
                        fill = sample_env(ob, p.sess.specs, rng)
                        penv = {k: (fill.get(k, 0.5) if v is None else v) for k, v in path_env.items()}
                        for k, v in fill.items():
                            penv.setdefault(k, v)
                        if _concrete_probe(ob, p, penv, res, 'path-model-probe'):
                            nv += 1
                    tries = 0
                    t_probe = time.time()
                    # at least nvalid on-path probes; keep probing (cheap) up to ~2 s / 10 probes
                    want = max(ob.nvalid, 10 if pi_ < 4 else ob.nvalid)
                    while nv < want and tries < 4 * want and not res['violations']:
                        if nv >= ob.nvalid and time.time() - t_probe > 2.0:
                            break
                        tries += 1
                        env = sample_env(ob, p.sess.specs, rng)
                        if _concrete_probe(ob, p, env, res, 'random-probe'):
                            nv += 1
                    res['validated'] += nv
                    if _n_new(res, ob):
                        stop = True
                        break
                # solver: groups of claims first, then one query per claim
                pre = {}
                todo = []
                for name, claim in p.sess.claims:
                    sc = z3.simplify(claim)
                    if z3.is_true(sc):
                        pre[name] = ('unsat', 0.0, 'simplify')
                    else:
                        todo.append((name, claim))
                if len(todo) > 1 and ob.batch and batch_fail < 2:
                    for i0 in range(0, len(todo), ob.batch):
                        if batch_fail >= 2:
                            break
                        grp = todo[i0:i0 + ob.batch]
                        okb, secs, eng = solve.check_batch(cons, [cl for _, cl in grp],
                                                           ob.timeout_s * 1000 * timeout_scale)
                        res['queries'] += 1
                        res['solver_s'] += secs
                        if not okb:
                            batch_fail += 1
                        if okb:
                            for nm, _ in grp:
                                pre[nm] = ('unsat', round(secs / len(grp), 3), eng)
                probed_more = False
                for name, claim in p.sess.claims:
                    if _n_new(res, ob) >= 2:
                        break
                    sc = z3.simplify(claim)
                    if name in pre:
                        vd, secs, eng = pre[name]
                        res['claims'].append(dict(name=name, path=pi_, chart=p.chart, verdict=vd,
                                                  s=secs, engine=eng))
                        if len(sample_claims) < 3 and eng != 'simplify':
                            txt = str(sc)
                            sample_claims.append(dict(claim=name, path_decisions=len(c.decisions),
                                                      n_constraints=len(cons),
                                                      smt=txt if len(txt) < 400 else txt[:400] + '...'))
                        continue
                    if z3.is_false(sc) and path_env is not None:
                        # literally false on this path: any input following the path is a witness
                        fill = sample_env(ob, p.sess.specs, rng)
                        penv = {k: (fill.get(k, 0.5) if v is None else v) for k, v in path_env.items()}
                        rep = replay_env(ob, penv, {}, name)
                        if rep['status'] == 'reproduced':
                            res['claims'].append(dict(name=name, path=pi_, chart=p.chart, verdict='violated',
                                                      s=0.0, engine='path-model+replay'))
                            res['violations'].append(dict(claim=name, env=penv, uf_tables={},
                                                          discrepancy=rep.get('discrepancy'),
                                                          failed=rep.get('failed')))
                            continue
                    verdict, model, secs, engine = solve.check(cons, z3.Not(claim),
                                                              ob.timeout_s * 1000 * timeout_scale)
                    res['queries'] += 1
                    res['solver_s'] += secs
                    entry = dict(name=name, path=pi_, chart=p.chart, verdict=verdict, s=round(secs, 3),
                                 engine=engine)
                    if len(sample_claims) < 3:
                        txt = str(sc)
                        sample_claims.append(dict(claim=name, path_decisions=len(c.decisions),
                                                  n_constraints=len(cons),
                                                  smt=txt if len(txt) < 400 else txt[:400] + '...'))
                    if verdict == 'unknown' and not probed_more and ob.nvalid:
                        # undecided: a burst of float probes of the real code on this path
                        probed_more = True
                        for _ in range(40):
                            env = sample_env(ob, p.sess.specs, rng)
                            _concrete_probe(ob, p, env, res, 'random-probe-after-unknown')
                            if res['violations']:
                                break
                        if res['violations']:
                            entry['verdict'] = 'unknown'
                            res['claims'].append(entry)
                            break
                    if verdict == 'unknown' and ob.witness:
                        model = solve.witness_search(c, z3.Not(claim), 3000, seed, tries=10)
                        res['queries'] += 1
                        if model is not None:
                            verdict = 'sat'
                            entry['engine'] = 'z3-witness-search'
                    if verdict == 'sat':
                        env = derive_env(c, model)
                        tables = uf_tables_from_model(c, model)
                        rep = replay_env(ob, env, tables, name)
                        entry['replay'] = rep['status']
                        if rep['status'] == 'reproduced':
                            entry['verdict'] = 'violated'
                            res['violations'].append(dict(claim=name, env=env, uf_tables=tables,
                                                          discrepancy=rep.get('discrepancy'),
                                                          failed=rep.get('failed')))
                        else:
                            # the model does not replay (over-abstracted function or rounding): a burst of
                            # float probes decides whether there is a real, reproducible violation nearby
                            if not probed_more and ob.nvalid:
                                probed_more = True
                                for _ in range(60):
                                    env2 = sample_env(ob, p.sess.specs, rng)
                                    _concrete_probe(ob, p, env2, res, 'random-probe-after-unreplayable-model')
                                    if res['violations']:
                                        break
                            if res['violations']:
                                entry['verdict'] = 'sat'
                                res['claims'].append(entry)
                                break
                            entry['verdict'] = 'sat-not-reproduced'
                            entry['replay_detail'] = rep
                            res['errors'].append(f"claim {name}: solver model did not reproduce "
                                                 f"({rep['status']}); env={env}")
                    elif verdict == 'unknown':
                        res['undecided'].append(name)
                    res['claims'].append(entry)
                if _n_new(res, ob) >= 2:
                    res['notes'].append("stopped after 2 reproduced violations")
                    stop = True
                    break
                if time.time() - t0 > budget_s:
                    res['undecided'].append(f"<exploration stopped after {int(budget_s)}s: {npaths_total} paths done>")
                    stop = True
                    break
            if any_angles or not anti_all:
                res['charts'].append(chart_name)
            res['paths'] += st['paths'] if (any_angles or not anti_all) else 0
            res['decisions'] += st['decisions']
            res['queries'] += st['feas_queries']
            res['infeasible_paths'] += st['infeasible']
            if st['budget_hit']:
                res['errors'].append(f"path budget {ob.max_paths} exhausted")
        if npaths_total == 0:
            res['errors'].append("no feasible path")
        elif n_vacuous == npaths_total:
            res['errors'].append("every explored path is vacuous (contradictory assumptions)")
        res['assumptions'] = sorted(seen_assump)
        res['samples'] = sample_claims
    except PathBudget:
        res['errors'].append("decision budget exhausted")
    except Exception as e:
        res['errors'].append(f"harness exception: {e!r}\n{traceback.format_exc()[-3000:]}")
    if res['violations']:
        res['verdict'] = 'violated'
    elif res['errors']:
        res['verdict'] = 'error'
    elif res['undecided']:
        res['verdict'] = 'undecided'
    res['wall_s'] = round(time.time() - t0, 2)
    return res


def replay_env(ob, env, tables, claim_name=None):
    try:
        S = run_concrete(ob, env, tables)
    except Discard as d:
        return dict(status='discarded', detail=str(d))
    except Exception as e:
        if claim_name and claim_name.startswith('no_unexpected_exception:') and \
                claim_name.split(':', 1)[1] == type(e).__name__:
            return dict(status='reproduced', failed=[claim_name], discrepancy=None, detail=repr(e)[:300])
        return dict(status='exception', detail=repr(e), tb=traceback.format_exc()[-1500:])
    failed = [(n, d) for n, ok, d in S.claims if not ok]
    if not failed:
        return dict(status='not-reproduced')
    names = [n for n, _ in failed]
    if claim_name is not None and claim_name not in names:
        return dict(status='reproduced', failed=names, discrepancy=failed[0][1],
                    note='a different claim failed on replay')
    return dict(status='reproduced', failed=names,
                discrepancy=[d for n, d in failed if n == claim_name or claim_name is None][0])
