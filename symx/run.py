"""CLI:  python -m symx.run C19 [--tier quick|thorough] [--only ID] [--replay FILE]
Runs every obligation of the property (one worker process each, up to 16 in
parallel), writes /verif/evidence/<id>.json and prints the verdict lines."""
import argparse
import concurrent.futures as cf
import importlib
import json
import os
import subprocess
import sys
import tempfile
import time

from . import harness

VERIF = harness.VERIF
EXIT_VIOLATION = 1
EXIT_HARNESS = 2


def load(prop):
    mod = importlib.import_module(f"props.{prop}")
    return mod, getattr(mod, 'OBLIGATIONS', [])


def tier_obligations(obs, tier):
    if tier == 'thorough':
        return list(obs)
    return [o for o in obs if o.tier == 'quick']


def worker_main(args):
    mod, obs = load(args.prop)
    ob = [o for o in obs if o.id == args.worker]
    if not ob:
        print(json.dumps(dict(id=args.worker, verdict='error', errors=['unknown obligation'])))
        return 0
    ob = ob[0]
    ob.known_claims = [c for k in load_known() if k.get('status') == 'open' and k.get('property') == args.prop
                       and k.get('obligation') == ob.id for c in (k.get('claims') or [''])]
    if ob.kind == 'custom':
        res = ob.body(args.seed, args.tier)
    else:
        res = harness.run_obligation(ob, seed=args.seed,
                                     timeout_scale=float(os.environ.get('SYMX_TIMEOUT_SCALE', '1')))
    with open(args.out, 'w') as f:
        json.dump(res, f, default=str)
    return 0


def load_known():
    p = os.path.join(VERIF, 'known_findings.json')
    if not os.path.exists(p):
        return []
    with open(p) as f:
        return json.load(f).get('findings', [])


def match_known(known, prop, obid, claim):
    for k in known:
        if k.get('status') != 'open' or k.get('property') != prop:
            continue
        if k.get('obligation') != obid:
            continue
        pats = k.get('claims')
        if pats is None or any(claim == p or claim.startswith(p) for p in pats):
            return k
    return None


def replay_main(args):
    with open(args.replay) as f:
        rep = json.load(f)
    mod, obs = load(rep['property'])
    ob = [o for o in obs if o.id == rep['obligation']][0]
    if ob.kind == 'custom':
        out = mod.REPLAY[ob.id](rep)
    else:
        out = harness.replay_env(ob, rep['env'], rep.get('uf_tables') or {}, rep.get('claim'))
    print(json.dumps(out, default=str, indent=1))
    if out.get('status') == 'reproduced':
        print(f"VIOLATION property={rep['property']} replay={args.replay}")
        return EXIT_VIOLATION
    return 0


def main(argv=None):
    ap = argparse.ArgumentParser()
    ap.add_argument('prop')
    ap.add_argument('--tier', default=os.environ.get('VERIF_TIER', 'quick'))
    ap.add_argument('--only')
    ap.add_argument('--replay')
    ap.add_argument('--worker')
    ap.add_argument('--out')
    ap.add_argument('--seed', type=int, default=int(os.environ.get('VERIF_SEED', '0') or 0))
    ap.add_argument('--jobs', type=int, default=int(os.environ.get('SYMX_JOBS', '0') or 0))
    ap.add_argument('-v', action='store_true')
    args = ap.parse_args(argv)
    if args.tier not in ('quick', 'thorough'):
        args.tier = 'quick'
    if args.replay:
        return replay_main(args)
    if args.worker:
        return worker_main(args)

    t0 = time.time()
    mod, obs = load(args.prop)
    obs = tier_obligations(obs, args.tier)
    if args.only:
        obs = [o for o in obs if o.id == args.only or o.id.startswith(args.only)]
    if not obs:
        print(f"no obligations for {args.prop} tier {args.tier}")
        return EXIT_HARNESS
    jobs = args.jobs or min(16, os.cpu_count() or 4)
    tmpdir = tempfile.mkdtemp(prefix='symx_', dir=os.environ.get('SYMX_TMP', None))
    results = {}

    def launch(ob):
        out = os.path.join(tmpdir, ob.id.replace('/', '_') + '.json')
        cmd = [sys.executable, '-m', 'symx.run', args.prop, '--worker', ob.id, '--out', out,
               '--tier', args.tier, '--seed', str(args.seed)]
        env = dict(os.environ)
        env['PYTHONPATH'] = VERIF + os.pathsep + '/repo'
        env.setdefault('OMP_NUM_THREADS', '1')
        env.setdefault('OPENBLAS_NUM_THREADS', '1')
        try:
            p = subprocess.run(cmd, cwd='/repo', env=env, capture_output=True, text=True,
                               timeout=ob.wall_s)
            if os.path.exists(out):
                with open(out) as f:
                    r = json.load(f)
                if args.v and (p.stderr or p.stdout):
                    r.setdefault('notes', []).append(('worker output: ' + p.stdout[-500:] + p.stderr[-1500:]))
                return r
            return dict(id=ob.id, verdict='error',
                        errors=[f"worker died rc={p.returncode}: {p.stderr[-3000:]}"])
        except subprocess.TimeoutExpired:
            return dict(id=ob.id, verdict='undecided', undecided=['<wall timeout>'],
                        errors=[], notes=[f"wall timeout {ob.wall_s}s"])

    # longest first
    order = sorted(obs, key=lambda o: -o.cost)
    with cf.ThreadPoolExecutor(max_workers=jobs) as ex:
        futs = {ex.submit(launch, ob): ob for ob in order}
        for fu in cf.as_completed(futs):
            ob = futs[fu]
            r = fu.result()
            results[ob.id] = r
            if args.v:
                print(f"  [{r.get('verdict')}] {ob.id} paths={r.get('paths')} "
                      f"claims={len(r.get('claims', []))} wall={r.get('wall_s')}s", flush=True)
    try:
        for fn in os.listdir(tmpdir):
            os.unlink(os.path.join(tmpdir, fn))
        os.rmdir(tmpdir)
    except OSError:
        pass

    known = load_known()
    rc = 0
    os.makedirs(harness.REPLAY_DIR, exist_ok=True)
    n_viol = 0
    known_lines = []
    seen_paths = set()
    for ob in obs:
        r = results[ob.id]
        for v in r.get('violations', []):
            k = match_known(known, args.prop, ob.id, v['claim'])
            if k is not None:
                line = f"KNOWN-FINDING: property={args.prop} {k['what']}"
                if line not in known_lines:
                    known_lines.append(line)
                v['known'] = True
                continue
            path = os.path.join(harness.REPLAY_DIR, f"{ob.id}.{v['claim'].replace('/', '_')}.json"[:180])
            if path in seen_paths:
                continue
            seen_paths.add(path)
            n_viol += 1
            with open(path, 'w') as f:
                json.dump(dict(property=args.prop, obligation=ob.id, claim=v['claim'], env=v.get('env'),
                               uf_tables=v.get('uf_tables'), discrepancy=v.get('discrepancy'),
                               failed=v.get('failed'), extra=v.get('extra')), f, indent=1, default=str)
            print(f"VIOLATION property={args.prop} replay={path}")
            print(f"  obligation={ob.id} claim={v['claim']} discrepancy={v.get('discrepancy')} env={v.get('env')}")
            rc = EXIT_VIOLATION
    for line in known_lines:
        print(line)
    harness_err = False
    for ob in obs:
        r = results[ob.id]
        errs = r.get('errors', [])
        for e in errs[:3]:
            print(f"HARNESS-ERROR {ob.id}: {e}")
            harness_err = True
        if len(errs) > 3:
            print(f"HARNESS-ERROR {ob.id}: ... {len(errs) - 3} more")
        for u in r.get('undecided', []):
            print(f"UNDECIDED {ob.id}: {u}")
    if rc == 0 and harness_err:
        rc = EXIT_HARNESS
    write_evidence(args, mod, obs, results, time.time() - t0, n_viol)
    nob = len(obs)
    held = sum(1 for o in obs if results[o.id].get('verdict') == 'held')
    print(f"{args.prop} tier={args.tier}: obligations={nob} held={held} "
          f"violations={n_viol} known={len(known_lines)} wall={time.time() - t0:.1f}s rc={rc}")
    return rc


def write_evidence(args, mod, obs, results, wall, n_viol):
    claims_total = claims_unsat = paths = decisions = queries = validated = 0
    solver_s = 0.0
    samples, functions, stubs, assumptions, outside, per_ob = [], [], [], [], [], []
    trusted = set()
    for ob in obs:
        r = results[ob.id]
        cl = r.get('claims', [])
        claims_total += len(cl) + len(r.get('undecided', []) if not cl else [])
        claims_unsat += sum(1 for c in cl if c.get('verdict') == 'unsat')
        paths += r.get('paths', 0) or 0
        decisions += r.get('decisions', 0) or 0
        queries += r.get('queries', 0) or 0
        validated += r.get('validated', 0) or 0
        solver_s += r.get('solver_s', 0) or 0
        for s in (r.get('samples') or [])[:1]:
            samples.append(dict(obligation=ob.id, **s))
        for f in ob.functions:
            if f not in functions:
                functions.append(f)
        for s in ob.stubs:
            if s not in stubs:
                stubs.append(s)
        for a in r.get('assumptions', []):
            if a not in assumptions:
                assumptions.append(a)
        if ob.outside and ob.outside not in outside:
            outside.append(ob.outside)
        per_ob.append(dict(id=ob.id, verdict=r.get('verdict'), bounds=ob.bounds,
                           paths=r.get('paths'), claims=len(cl),
                           claims_unsat=sum(1 for c in cl if c.get('verdict') == 'unsat'),
                           undecided=r.get('undecided', []), solver_s=round(r.get('solver_s', 0) or 0, 3),
                           wall_s=r.get('wall_s'), charts=r.get('charts'), validated=r.get('validated'),
                           engines=sorted({c.get('engine') for c in cl if c.get('engine')}),
                           known=[v['claim'] for v in r.get('violations', []) if v.get('known')],
                           notes=r.get('notes', []), extra=r.get('extra')))
    level = getattr(mod, 'LEVEL', 'model_checking')
    cov = dict(
        states=max(paths, 1), transitions=max(decisions + paths, 1),
        traces_validated_against_impl=validated,
        obligations=claims_total, discharged=claims_unsat,
        samples=samples[:8] or [dict(note='no sample recorded')],
        obligations_run=len(obs),
        obligations_held=sum(1 for o in obs if results[o.id].get('verdict') == 'held'),
        solver_queries=queries, solver_time_s=round(solver_s, 2),
        functions_encoded=functions, stubs=stubs, outside_claim=outside,
        per_obligation=per_ob,
        explanation=("states = feasible execution paths of the real functions explored symbolically; "
                     "transitions = branch decisions + path ends; obligations = atomic claims sent to the "
                     "solver (one query each), discharged = claims answered unsat; "
                     "traces_validated_against_impl = float runs of the unmodified implementation compared "
                     "with the float evaluation of the symbolic encoding"),
        exhaustive=False,
    )
    if level == 'translation_validation':
        cov['programs'] = len(functions)
        cov['disagreements_checked'] = claims_total
    ev = dict(property_id=args.prop, tier=args.tier, seed=args.seed, level=level, coverage=cov,
              assumptions=(getattr(mod, 'ASSUMPTIONS', []) + assumptions)[:200],
              wall_s=round(wall, 2), violations=n_viol)
    os.makedirs(os.path.join(VERIF, 'evidence'), exist_ok=True)
    with open(os.path.join(VERIF, 'evidence', f"{args.prop}.json"), 'w') as f:
        json.dump(ev, f, indent=1, default=str)


if __name__ == '__main__':
    sys.exit(main())
