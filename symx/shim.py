"""Pass-through replacement for a module-level `np` binding.  Overrides only the
names that have no dtype=object loop or allocate typed storage; everything else
is NumPy's own code.  Every override is part of the trusted base and is listed
in the evidence."""
import math
import types

import numpy as _np

from . import core
from .core import SymR, SymC, SymB

OVERRIDES_DOC = {
    'pi': 'symbolic real constant pi (3.14159265358979 < pi < 3.14159265358980)',
    'isscalar': 'True for symx proxies',
    'isfinite': 'True for proxies (reals are finite); numpy otherwise',
    'isnan': 'False for proxies',
    'zeros/ones/zeros_like/ones_like/full/empty': 'dtype float/complex -> dtype=object filled with exact 0/1',
    'iscomplex': 'structural: SymC with non-constant-zero imaginary part',
    'real/imag': 'elementwise .real/.imag on object arrays',
    'where(cond)': 'numpy (forces bool per element => path fork)',
    'float64/complex128...': 'unchanged',
}


def _has_sym(a):
    if core.is_sym(a):
        return True
    if isinstance(a, _np.ndarray) and a.dtype == object:
        return any(core.is_sym(x) for x in a.reshape(-1))
    if isinstance(a, (list, tuple)):
        return any(_has_sym(x) for x in a)
    if type(a).__name__ == 'DataArray':
        return _has_sym(a.values)
    return False


class NpShim(types.ModuleType):
    def __init__(self, extra=None):
        super().__init__('numpy_symx_shim')
        self.__dict__['_extra'] = dict(extra or {})

    def __getattr__(self, name):
        ex = self.__dict__['_extra']
        if name in ex:
            return ex[name]
        f = _OVR.get(name)
        if f is not None:
            return f
        return getattr(_np, name)

    # numpy attribute names that are properties on the shim
    @property
    def pi(self):
        return core.ctx().get_pi()


def _isscalar(x):
    return core.is_sym(x) or _np.isscalar(x)


def _isfinite(x):
    if core.is_sym(x):
        return True
    if isinstance(x, _np.ndarray) and x.dtype == object:
        out = _np.ones(x.shape, dtype=bool)
        for i, v in _np.ndenumerate(x):
            out[i] = True if core.is_sym(v) else bool(_np.isfinite(v))
        return out
    return _np.isfinite(x)


def _isnan(x):
    if core.is_sym(x):
        return False
    if isinstance(x, (list, tuple)) and _has_sym(x):
        x = _np.array(x, dtype=object)
    if isinstance(x, _np.ndarray) and x.dtype == object:
        out = _np.zeros(x.shape, dtype=bool)
        for i, v in _np.ndenumerate(x):
            out[i] = False if core.is_sym(v) else bool(_np.isnan(v))
        return out
    return _np.isnan(x)


def _objfill(shape, val):
    a = _np.empty(shape, dtype=object)
    a.fill(val)
    return a


def _is_num_dtype(dtype):
    if dtype is None:
        return True
    try:
        return _np.dtype(dtype).kind in 'fc'
    except TypeError:
        return False


def _zeros(shape, dtype=float, **kw):
    if _is_num_dtype(dtype):
        return _objfill(shape, SymR(0))
    return _np.zeros(shape, dtype=dtype, **kw)


def _ones(shape, dtype=float, **kw):
    if _is_num_dtype(dtype):
        return _objfill(shape, SymR(1))
    return _np.ones(shape, dtype=dtype, **kw)


def _empty(shape, dtype=float, **kw):
    if _is_num_dtype(dtype):
        return _objfill(shape, SymR(0))
    return _np.empty(shape, dtype=dtype, **kw)


def _zeros_like(a, dtype=None, **kw):
    if dtype is None and not _has_sym(a):
        return _np.zeros_like(a, **kw)
    if _is_num_dtype(dtype):
        return _objfill(_np.shape(a), SymR(0))
    return _np.zeros_like(a, dtype=dtype, **kw)


def _ones_like(a, dtype=None, **kw):
    if dtype is None and not _has_sym(a):
        return _np.ones_like(a, **kw)
    if _is_num_dtype(dtype):
        return _objfill(_np.shape(a), SymR(1))
    return _np.ones_like(a, dtype=dtype, **kw)


def _full(shape, fill, dtype=None, **kw):
    if core.is_sym(fill) or _has_sym(fill):
        if isinstance(fill, _np.ndarray):
            fill = fill.reshape(-1)[0] if fill.size == 1 else fill
        return _objfill(shape, fill)
    return _np.full(shape, fill, dtype=dtype, **kw)


def _iscomplex(x):
    def one(v):
        if isinstance(v, SymC):
            return not (v.im.c is not None and v.im.c == 0)
        if isinstance(v, SymR):
            return False
        return bool(_np.iscomplex(v))
    if core.is_sym(x):
        return one(x)
    a = _np.asarray(x, dtype=object) if _has_sym(x) else None
    if a is None:
        return _np.iscomplex(x)
    out = _np.zeros(a.shape, dtype=bool)
    for i, v in _np.ndenumerate(a):
        out[i] = one(v)
    return out


def _real(x):
    if core.is_sym(x):
        return x.real
    if isinstance(x, _np.ndarray) and x.dtype == object:
        out = _np.empty(x.shape, dtype=object)
        for i, v in _np.ndenumerate(x):
            out[i] = v.real
        return out
    return _np.real(x)


def _imag(x):
    if core.is_sym(x):
        return x.imag
    if isinstance(x, _np.ndarray) and x.dtype == object:
        out = _np.empty(x.shape, dtype=object)
        for i, v in _np.ndenumerate(x):
            out[i] = v.imag
        return out
    return _np.imag(x)


def _array(obj, *a, **kw):
    """np.array that unwraps 0-d object arrays holding a proxy (NumPy would nest them)"""
    if isinstance(obj, _np.ndarray) and obj.dtype == object and obj.shape == () and not a and not kw:
        return obj.copy()
    if isinstance(obj, (list, tuple)):
        obj = [x.item() if isinstance(x, _np.ndarray) and x.shape == () and x.dtype == object else x
               for x in obj]
    dt = kw.get('dtype', a[0] if a else None)
    if dt is not None and _has_sym(obj) and _is_num_dtype(dt):
        kw = dict(kw)
        kw.pop('dtype', None)
        return _np.array(obj, dtype=object, **kw)
    return _np.array(obj, *a, **kw)


def _asarray(obj, dtype=None, **kw):
    if dtype is not None and _has_sym(obj) and _is_num_dtype(dtype):
        return _np.asarray(obj, dtype=object, **kw)
    return _np.asarray(obj, dtype=dtype, **kw)


def _angle(z):
    if isinstance(z, SymC):
        return core.sym_arctan2(z.im, z.re)
    return _np.angle(z)


def _hypot(a, b):
    if core.is_sym(a) or core.is_sym(b):
        return core.sym_hypot(a, b)
    return _np.hypot(a, b)


def _mixed_unary(name):
    uf = getattr(_np, name)

    def f(x, *a, **kw):
        if isinstance(x, _np.ndarray) and x.dtype == object and not a and not kw:
            out = _np.empty(x.shape, dtype=object)
            for i, v in _np.ndenumerate(x):
                out[i] = getattr(v, name)() if core.is_sym(v) else uf(v)
            return out
        return uf(x, *a, **kw)
    return f


_OVR = {
    'sqrt': _mixed_unary('sqrt'),
    'exp': _mixed_unary('exp'),
    'log': _mixed_unary('log'),
    'sin': _mixed_unary('sin'),
    'cos': _mixed_unary('cos'),
    'isscalar': _isscalar,
    'isfinite': _isfinite,
    'isnan': _isnan,
    'zeros': _zeros,
    'ones': _ones,
    'empty': _empty,
    'zeros_like': _zeros_like,
    'ones_like': _ones_like,
    'full': _full,
    'iscomplex': _iscomplex,
    'real': _real,
    'imag': _imag,
    'array': _array,
    'asarray': _asarray,
    'angle': _angle,
    'hypot': _hypot,
}


def shim_np(S, module, extra=None, names=('np',)):
    """Rebind module.np (symbolic runs only)."""
    if not S.sym:
        return
    sh = NpShim(extra)
    for n in names:
        if hasattr(module, n):
            S.patch(module, n, sh)
    return sh


def shim_xarray_mean(S):
    """xarray's in-house nanmean for dtype=object forces dtype=float; for proxies
    (which are never NaN) it is replaced by sum/count with dtype=object."""
    if not S.sym:
        return
    import xarray.computation.nanops as nanops

    def _nanmean_ddof_object(ddof, value, axis=None, dtype=None, **kwargs):
        value = _np.asarray(value, dtype=object)
        if axis is None:
            n = value.size
        else:
            axes = axis if isinstance(axis, (tuple, list)) else (axis,)
            n = 1
            for a in axes:
                n *= value.shape[a]
        data = _np.sum(value, axis=axis, dtype=object, **kwargs)
        return data / (n - ddof)
    S.patch(nanops, '_nanmean_ddof_object', _nanmean_ddof_object)


class NpPass(types.ModuleType):
    """numpy pass-through with only the given extra names replaced (used for
    concrete runs that need the same environment stubs, e.g. a prescribed RNG)."""

    def __init__(self, extra):
        super().__init__('numpy_symx_pass')
        self.__dict__['_extra'] = dict(extra)

    def __getattr__(self, name):
        ex = self.__dict__['_extra']
        if name in ex:
            return ex[name]
        return getattr(_np, name)


def shim_np_both(S, module, extra):
    """symbolic runs: full shim + extras; concrete runs: pass-through + extras"""
    if S.sym:
        return shim_np(S, module, extra=extra)
    sh = NpPass(extra)
    S.patch(module, 'np', sh, both=True)
    return sh
