"""Discharging claims: z3 first, alternative tactics / cvc5 on `unknown`, then a
guided witness search (substitution of seeded rationals) that can only ever
produce *candidate violations*, never a 'holds'."""
import random
import time
from fractions import Fraction

import z3

from . import feval


def _mk_solver(timeout_ms, tactic=None):
    if tactic is None:
        s = z3.Solver()
    else:
        s = tactic.solver()
    s.set('timeout', int(timeout_ms))
    return s


def _run(mk, constraints, negated_claim, timeout_ms):
    try:
        s = mk(timeout_ms)
        s.add(*constraints)
        s.add(negated_claim)
        r = s.check()
        if r == z3.unsat:
            return 'unsat', None
        if r == z3.sat:
            return 'sat', s.model()
    except z3.Z3Exception:
        pass
    return 'unknown', None


def _nlsat_solver(timeout_ms):
    tac = z3.Then('simplify', 'purify-arith', 'solve-eqs', 'qfnra-nlsat')
    return _mk_solver(timeout_ms, tac)


def _has_int_or_uf(constraints, negated_claim):
    txt_kinds = set()
    seen = set()
    stack = list(constraints) + [negated_claim]
    while stack:
        t = stack.pop()
        i = t.get_id()
        if i in seen:
            continue
        seen.add(i)
        if z3.is_app(t):
            k = t.decl().kind()
            if k in (z3.Z3_OP_TO_INT, z3.Z3_OP_TO_REAL, z3.Z3_OP_IDIV, z3.Z3_OP_MOD):
                return True
            if k == z3.Z3_OP_UNINTERPRETED and t.num_args() > 0:
                return True
            if z3.is_int(t):
                return True
            stack.extend(t.children())
    return False


def _is_linear(t, memo):
    i = t.get_id()
    if i in memo:
        return memo[i]
    ok = True
    if z3.is_app(t):
        k = t.decl().kind()
        ch = t.children()
        if k == z3.Z3_OP_MUL:
            nonconst = [x for x in ch if not (z3.is_rational_value(x) or z3.is_int_value(x))]
            if len(nonconst) > 1:
                ok = False
        elif k in (z3.Z3_OP_DIV, z3.Z3_OP_IDIV, z3.Z3_OP_MOD):
            if not (z3.is_rational_value(ch[1]) or z3.is_int_value(ch[1])):
                ok = False
        elif k == z3.Z3_OP_POWER:
            ok = False
        if ok:
            for x in ch:
                if not _is_linear(x, memo):
                    ok = False
                    break
    memo[i] = ok
    return ok


def linear_subset(constraints):
    memo = {}
    return [c for c in constraints if _is_linear(c, memo)]


def _linear_stage(constraints, neg, budget=2000):
    """Sound shortcut: drop every nonlinear constraint; `unsat` of the weaker
    set implies `unsat` of the full one.  Only `unsat` is used."""
    memo = {}
    if not _is_linear(neg, memo):
        return False
    lin = [c for c in constraints if _is_linear(c, memo)]
    v, _ = _run(_mk_solver, lin, neg, budget)
    return v == 'unsat'


_VARS_MEMO = {}


def term_vars(t):
    """set of uninterpreted constant / function names in t"""
    out = set()
    seen = set()
    stack = [t]
    while stack:
        x = stack.pop()
        xi = x.get_id()
        if xi in seen:
            continue
        seen.add(xi)
        if z3.is_app(x):
            if x.decl().kind() == z3.Z3_OP_UNINTERPRETED:
                out.add(x.decl().name())
            stack.extend(x.children())
    return out


def relevance_stages(constraints, neg):
    """increasingly large subsets of the constraints, most relevant first.  Variables
    that occur in more than 40% of the constraints (pi, the wavevector, ...) are
    "hubs" and do not propagate relevance."""
    V = set(term_vars(neg))
    cv = [(c, term_vars(c)) for c in constraints]
    count = {}
    for _, vs in cv:
        for v in vs:
            count[v] = count.get(v, 0) + 1
    hubs = {v for v, n in count.items() if n > 0.4 * max(len(cv), 1) and len(cv) > 20}
    inside = [c for c, vs in cv if vs and vs <= V]
    stages = []
    if len(inside) < len(constraints):
        stages.append(('subset-vars', inside))
    prev = len(inside)
    W = set(V) - hubs
    if not W:
        W = set(V)
    for hop in (1, 2, 3):
        touch = [c for c, vs in cv if (vs - hubs) & W or (vs and vs <= (V | hubs))]
        if len(touch) >= len(constraints):
            break
        if len(touch) > prev:
            stages.append((f'subset-{hop}hop', touch))
            prev = len(touch)
        for c, vs in cv:
            if (vs - hubs) & W:
                W = W | (vs - hubs)
    return stages


def _relevance_stage(constraints, neg, budget=5000):
    for name, sub in relevance_stages(constraints, neg):
        v, _ = _run(_mk_solver, sub, neg, budget)
        if v == 'unsat':
            return name
        if not _has_int_or_uf(sub, neg):
            v, _ = _run(_nlsat_solver, sub, neg, budget)
            if v == 'unsat':
                return name + '-nlsat'
    return None


def _numden(t, memo):
    """z3 real term -> (numerator, denominator) z3 terms without division
    (denominator None means 1)."""
    i = t.get_id()
    if i in memo:
        return memo[i][0]
    out = (t, None)
    if z3.is_app(t) and not (z3.is_rational_value(t) or z3.is_int_value(t)):
        k = t.decl().kind()
        ch = t.children()

        def mul(a, b):
            if a is None:
                return b
            if b is None:
                return a
            return a * b

        if k in (z3.Z3_OP_ADD, z3.Z3_OP_SUB):
            parts = [_numden(x, memo) for x in ch]
            # common denominator = product of the distinct denominators
            dens = []
            for _, d in parts:
                if d is not None and all(d.get_id() != e.get_id() for e in dens):
                    dens.append(d)
            if not dens:
                out = (t, None)
            else:
                den = dens[0]
                for d in dens[1:]:
                    den = den * d
                nums = []
                for n, d in parts:
                    f = n
                    for e in dens:
                        if d is None or e.get_id() != d.get_id():
                            f = f * e
                    nums.append(f)
                if k == z3.Z3_OP_ADD:
                    num = nums[0]
                    for x in nums[1:]:
                        num = num + x
                else:
                    num = nums[0]
                    for x in nums[1:]:
                        num = num - x
                out = (num, den)
        elif k == z3.Z3_OP_UMINUS:
            n, d = _numden(ch[0], memo)
            out = (-n, d)
        elif k == z3.Z3_OP_MUL:
            num, den = None, None
            for x in ch:
                n, d = _numden(x, memo)
                num = mul(num, n)
                den = mul(den, d)
            out = (num, den)
        elif k == z3.Z3_OP_DIV:
            n1, d1 = _numden(ch[0], memo)
            n2, d2 = _numden(ch[1], memo)
            out = (mul(n1, d2) if d2 is not None else n1, mul(d1, n2))
    # the term is stored with its result: z3 ast ids are only unique among LIVE terms, and the terms built
    # here are temporaries - an id-keyed entry whose term died would be hit by an unrelated later term
    memo[i] = (out, t)
    return out


def _som_stage(constraints, negated_claim, budget_ms=2000):
    """Equality of rational functions: clear denominators and let z3's rewriter
    bring the difference to sum-of-monomials normal form.  If it is the zero
    polynomial and every denominator is provably non-zero under the constraints,
    the claim holds."""
    t = negated_claim
    if not (z3.is_not(t) and z3.is_eq(t.arg(0))):
        return False
    a, b = t.arg(0).arg(0), t.arg(0).arg(1)
    if not z3.is_real(a):
        return False
    memo = {}
    try:
        na, da = _numden(z3.simplify(a), memo)
        nb, db = _numden(z3.simplify(b), memo)
    except RecursionError:
        return False
    lhs = na if db is None else na * db
    rhs = nb if da is None else nb * da
    diff = z3.simplify(lhs - rhs, som=True, mul_to_power=True, hoist_mul=False)
    if not (z3.is_rational_value(diff) and diff.numerator_as_long() == 0):
        return False
    # all denominators that were cleared must be non-zero
    dens = {}
    for (n, d), _t in memo.values():
        if d is not None:
            dens[d.get_id()] = d
    for d in dens.values():
        ds = z3.simplify(d)
        if z3.is_rational_value(ds) and ds.numerator_as_long() != 0:
            continue
        v, _ = _run(_mk_solver, constraints, ds == 0, budget_ms)
        if v != 'unsat':
            v2, _ = _run(_nlsat_solver, [c for c in constraints if term_vars(c) <= term_vars(ds)], ds == 0, budget_ms)
            if v2 != 'unsat':
                return False
    return True


def check(constraints, negated_claim, timeout_ms, use_cvc5=True):
    """Staged: z3 default (short), nlsat tactic (short), z3 default (full),
    nlsat (full), cvc5.  returns (verdict, model_or_None, seconds, engine)"""
    t0 = time.time()
    T = timeout_ms
    if _linear_stage(constraints, negated_claim):
        return 'unsat', None, time.time() - t0, 'z3-linear-subset'
    if len(constraints) > 12:
        st = _relevance_stage(constraints, negated_claim)
        if st:
            return 'unsat', None, time.time() - t0, 'z3-' + st
    try:
        if _som_stage(constraints, negated_claim):
            return 'unsat', None, time.time() - t0, 'z3-som-rewriter'
    except z3.Z3Exception:
        pass
    pure = not _has_int_or_uf(constraints, negated_claim)
    stages = [('z3', _mk_solver, min(T, 4000))]
    if pure:
        stages.append(('z3-nlsat', _nlsat_solver, min(T, 20000)))
    if T > 4000:
        stages.append(('z3', _mk_solver, T))
    if pure and T > 20000:
        stages.append(('z3-nlsat', _nlsat_solver, T))
    for name, mk, budget in stages:
        v, m = _run(mk, constraints, negated_claim, budget)
        if v != 'unknown':
            return v, m, time.time() - t0, name
    if use_cvc5:
        r3 = check_cvc5(constraints, negated_claim, T)
        if r3 == 'unsat':
            return 'unsat', None, time.time() - t0, 'cvc5'
    return 'unknown', None, time.time() - t0, 'z3'


def check_batch(constraints, claims, timeout_ms):
    """One query for a group of claims: unsat => every claim of the group holds."""
    t0 = time.time()
    neg = z3.Or(*[z3.Not(c) for c in claims]) if len(claims) > 1 else z3.Not(claims[0])
    if _linear_stage(constraints, neg):
        return True, time.time() - t0, 'z3-linear-subset-batch'
    pure = not _has_int_or_uf(constraints, neg)
    stages = [('z3-batch', _mk_solver, min(timeout_ms, 4000))]
    if pure:
        stages.append(('z3-nlsat-batch', _nlsat_solver, min(timeout_ms, 6000)))
    for name, mk, budget in stages:
        v, m = _run(mk, constraints, neg, budget)
        if v == 'unsat':
            return True, time.time() - t0, name
        if v == 'sat':
            break
    return False, time.time() - t0, None


def to_smt2(constraints, negated_claim):
    s = z3.Solver()
    s.add(*constraints)
    s.add(negated_claim)
    return s.to_smt2()


def check_cvc5(constraints, negated_claim, timeout_ms):
    """Run cvc5 (python wheel) on the SMT-LIB text of the same query.  Only an
    `unsat` answer is used (cvc5 models are not replayed)."""
    try:
        import cvc5
    except ImportError:
        return 'unavailable'
    try:
        text = to_smt2(constraints, negated_claim)
        tm = cvc5.TermManager() if hasattr(cvc5, 'TermManager') else None
        slv = cvc5.Solver(tm) if tm is not None else cvc5.Solver()
        slv.setOption('tlimit-per', str(int(timeout_ms)))
        slv.setLogic('ALL')
        ip = cvc5.InputParser(slv)
        ip.setStringInput(cvc5.InputLanguage.SMT_LIB_2_6, text, 'q')
        sm = ip.getSymbolManager()
        res = None
        while True:
            cmd = ip.nextCommand()
            if cmd.isNull():
                break
            out = cmd.invoke(slv, sm)
            o = str(out).strip()
            if o in ('sat', 'unsat', 'unknown'):
                res = o
        return res or 'unknown'
    except Exception as e:  # noqa
        return 'error'


def cross_check_cvc5(constraints, negated_claim, timeout_ms):
    return check_cvc5(constraints, negated_claim, timeout_ms)


def witness_search(c, negated_claim, timeout_ms, seed, tries=40, keep=1):
    """Substitute seeded small rationals for all but `keep` input variables and
    ask the solver again.  Returns a model-like dict {input name: float} or None."""
    rng = random.Random(seed)
    names = sorted(c.inputs)
    cons = c.all_constraints()
    pool = [Fraction(n, d) for n in range(-7, 8) for d in (1, 2, 3, 5, 7) if n != 0]
    for attempt in range(tries):
        free = set(rng.sample(names, min(keep if attempt % 3 else 0, len(names))))
        sub = []
        for n in names:
            if n in free:
                continue
            v = rng.choice(pool)
            sub.append(c.inputs[n] == z3.Q(v.numerator, v.denominator))
        s = _mk_solver(min(timeout_ms, 5000))
        s.add(*cons)
        s.add(negated_claim)
        s.add(*sub)
        r = s.check()
        if r == z3.sat:
            return s.model()
    return None


def model_env(c, m):
    """Solver model -> {input name: float} (inputs without a model value get 0.5)."""
    env = {}
    for name, v in c.inputs.items():
        x = feval.model_value(m, v)
        env[name] = x
    return env
