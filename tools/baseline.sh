#!/bin/bash
# Runs the repository's pinned baseline (guard off) and compares with BASELINE.json's stable_pass.
cd /repo
OUT=${1:-/tmp/baseline.junit.xml}
env -u HOLOPY_VERIF /venv/bin/python -m pytest -ra -q -p no:cacheprovider --timeout=900 --continue-on-collection-errors --junitxml=$OUT > /tmp/baseline.out 2>&1
/venv/bin/python - "$OUT" <<'PY'
import json, sys, xml.etree.ElementTree as ET
base = set(json.load(open('/root/.vp/BASELINE.json'))['stable_pass'])
passed = set()
for tc in ET.parse(sys.argv[1]).getroot().iter('testcase'):
    if not any(ch.tag in ('failure', 'error', 'skipped') for ch in tc):
        passed.add(f"{tc.get('classname')}::{tc.get('name')}")
missing = sorted(base - passed)
print(f"baseline stable_pass={len(base)} passed_now={len(passed)} missing={len(missing)}")
for m in missing[:20]:
    print("  MISSING", m)
sys.exit(1 if missing else 0)
PY
