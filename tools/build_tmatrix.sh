#!/bin/bash
# Builds holopy's T-matrix Fortran extension from /repo's CURRENT sources into a scratch directory
# (used only to replay C10 counterexamples against the real compiled code).  Prints the directory.
# usage: tools/build_tmatrix.sh <outdir>
set -e
OUT=${1:?outdir}
SRC=/repo/holopy/scattering/theory/tmatrix_f
mkdir -p "$OUT"
cd "$OUT"
cp $SRC/S.f $SRC/ampld.lp.f $SRC/lpd.f $SRC/ampld.par.f . 2>/dev/null || true
PY=/venv/bin/python
$PY -m numpy.f2py S.f ampld.lp.f lpd.f -m S --lower --build-dir . > f2py.log 2>&1
NPINC=$($PY -c "import numpy; print(numpy.get_include())")
F2PYSRC=$($PY -c "import numpy.f2py, os; print(os.path.join(os.path.dirname(numpy.f2py.__file__), 'src'))")
PYINC=$($PY -c "import sysconfig; print(sysconfig.get_paths()['include'])")
gcc -O1 -fPIC -c Smodule.c "$F2PYSRC/fortranobject.c" -I"$NPINC" -I"$F2PYSRC" -I"$PYINC" -DNPY_NO_DEPRECATED_API=NPY_1_7_API_VERSION > cc.log 2>&1
gfortran -O2 -fPIC -std=legacy -c S.f ampld.lp.f lpd.f S-f2pywrappers.f > fc.log 2>&1
gfortran -shared -o S.so Smodule.o fortranobject.o S.o ampld.lp.o lpd.o S-f2pywrappers.o -lgfortran -lquadmath > ld.log 2>&1
$PY -c "import sys; sys.path.insert(0, '.'); import S; print('built', S.__file__)"
