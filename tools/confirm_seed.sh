#!/bin/bash
# usage: tools/confirm_seed.sh <prop> <variant> <srcdir>
# Confirms a seeded change in a scratch worktree (applies, existing tests still pass, demo fails with / passes without)
# and stores it under /verif/seeded/<prop>_<variant>/ .
prop=$1; x=$2; src=$3
WT=/tmp/confirm_wt_$$
git -C /repo worktree add -q $WT HEAD || exit 9
cd $WT
res="applies=no"
if git apply $src/$x.diff; then
  res="applies=yes"
  env -u HOLOPY_VERIF /venv/bin/python -m pytest -q -p no:cacheprovider --timeout=900 --continue-on-collection-errors --junitxml=/tmp/seed_$$.xml > /tmp/seed_$$.out 2>&1
  tests=$(/venv/bin/python - /tmp/seed_$$.xml <<'PY'
import json, sys, xml.etree.ElementTree as ET
base = set(json.load(open('/root/.vp/BASELINE.json'))['stable_pass'])
passed = set()
for tc in ET.parse(sys.argv[1]).getroot().iter('testcase'):
    if not any(ch.tag in ('failure', 'error', 'skipped') for ch in tc):
        passed.add(f"{tc.get('classname')}::{tc.get('name')}")
print("baseline_missing=%d passed=%d" % (len(base - passed), len(passed)))
PY
)
  /venv/bin/python $src/${x}_demo.py > /tmp/seed_demo_$$.out 2>&1; with=$?
  git checkout -q -- .
  /venv/bin/python $src/${x}_demo.py > /tmp/seed_demo0_$$.out 2>&1; without=$?
  res="$res $tests demo_with_change_exit=$with demo_without_exit=$without"
fi
cd /; git -C /repo worktree remove --force $WT
echo "$prop/$x: $res"
case "$res" in *"baseline_missing=0"*"demo_with_change_exit=1 demo_without_exit=0"*)
  d=/verif/seeded/${prop}_$x; mkdir -p $d; cp $src/$x.diff $d/patch.diff; cp $src/${x}_demo.py $d/demo.py
  echo "$res" > $d/confirmed.txt ;;
esac
rm -f /tmp/seed_$$.xml /tmp/seed_$$.out /tmp/seed_demo_$$.out /tmp/seed_demo0_$$.out
