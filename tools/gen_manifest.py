#!/usr/bin/env python3
"""Regenerates /verif/MANIFEST.json from the table below (kept in one place so
that the claimed/not-applicable lists can never drift apart)."""
import json
import os

VERIF = os.path.dirname(os.path.dirname(os.path.abspath(__file__)))

TECH = ("bounded symbolic execution of the real Python functions on z3-backed proxy scalars "
        "(symx); each atomic claim is one SMT query (z3 5.1, nlsat tactic / cvc5 1.4 on unknown); "
        "sat models are replayed on the unmodified float code")

TRUST = ("floats modelled as reals; NumPy object-array dispatch and xarray plumbing are executed, not modelled; "
         "listed np-shim overrides; kernels named as stubs are uninterpreted functions; z3/cvc5 soundness")

CLAIMED = {
    # id: (category, text, design_ref, level_note)
    'C19': ('model_checking',
            "All six coordinate conversions, the Euler matrix (orthogonality, det=+1, z-y-z in radians and "
            "degrees), rotate_points and rigid motion of composites/RigidCluster are decided for ALL real "
            "inputs (one symbolic point / 2-4 members) by SMT over the terms the real functions produce.",
            '§2 C19', TRUST + "; round trips assume the stated distance from coordinate singularities"),
    'C20': ('model_checking',
            "Containment/layer/index of spheres, layered spheres, ellipsoids and CSG combinations, translation, "
            "bounds, overlaps/largest_overlap/warning/rejections and LimitOverlaps are decided for ALL real "
            "geometries (symbolic centres, radii, query points) by path exploration of the real indicator code "
            "+ SMT against independently written analytic predicates.",
            '§2 C20', TRUST + "; find_bounds search loop and voxel convergence outside the claim"),
    'C14': ('model_checking',
            "Constructor validation, support, lnprob/prob, Uniform normalisation, guess in support, scale/unscale, "
            "operator identities and closure (16 expressions, depth<=3), derived guess/sample, ComplexPrior, "
            "updated/generate_guess decided for ALL real parameters; RNG = contract stub.",
            '§2 C14', TRUST + "; RNG draws are arbitrary values within the documented contract, distributional "
            "agreement and the Gaussian integral are outside the claim"),
    'C17': ('model_checking',
            "ifft(fft(x))=x for all pixel values on shapes {2,3,4,6}^2 (exact symbolic DFT) and for every axis "
            "length 1..64 via the index maps of the shift calls the real code makes (z3 LIA); transfer-function "
            "group law, |G|<=1, inverse, cascaded and gradient options for all distances; propagate end to end "
            "(compose, linear, list, zero, coordinates/metadata, per-frequency energy + Parseval).",
            '§2 C17', TRUST + "; pocketfft = exact DFT; wavelength/spacing concrete; coordinates starting at 0"),
    'C01': ('model_checking',
            "calc_holo == sum_xy |scaling*calc_field + (a,b)/|(a,b)||^2, calc_intensity == sum_xy |calc_field|^2, "
            "scaling 0 -> exactly 1, calc_field == stub field * exp(-ikz) (superposed for collections), result "
            "coordinates/metadata and input purity, for ALL field values, polarizations, scalings and depths on "
            "grids up to 3x4 and point detectors up to 4 points, through the real interface/imageformation code; history "
            "independence of the real MieLens calculator (two lens angles in both orders, fresh module state).",
            '§2 C01', TRUST + "; theory kernel = arbitrary per-point field; finiteness and Fortran COMMON state outside"),
    'C16': ('model_checking',
            "Welford accumulator == batch mean/variance for every push order (n<=6), load_average mean and relative "
            "noise independent of file order, update_metadata purity / unit polarization / per-channel dict "
            "alignment, pixel (i,j) at (i*sx, j*sy) for symbolic spacing - all for symbolic pixel values.",
            '§2 C16', TRUST + "; load_image stubbed; HDF5/TIFF/PIL byte I/O outside the claim"),
    'C18': ('model_checking',
            "normalize (mean 1, idempotent, scale invariant), bg_correct formula / self-division / mismatch "
            "rejection, subimage values+coordinates (enumerated crops, symbolic pixels), accumulator == batch, "
            "metadata kept - decided for all pixel values.",
            '§2 C18', TRUST + "; zero_filter assumed identity on positive images; zero_filter, detrend, center_find "
            "outside the claim"),
    'C12': ('model_checking',
            "lnposterior = lnprior + lnlike, lnprior = sum of lnprob, -inf iff out of support / invalid scatterer / "
            "constraint violated with NO forward call, Gaussian likelihood formula incl. noise precedence and "
            "per-channel noise, forward == calc_holo incl. scaling and pixel subsets, history independence for reused "
            "parameter lists - for ALL parameter vectors, data pixels and noise levels (path exploration over every "
            "support branch).",
            '§2 C12', TRUST + "; forward kernel = counting stub; log uninterpreted; RNG choice stub"),
    'C05': ('model_checking',
            "In-plane shift leaves every kernel argument unchanged (spherical and cylindrical kernels); rotation about "
            "the axis turns cylindrical arguments into (rho, phi+psi, z); full rotation covariance, mirror symmetry and "
            "x/y-polarization symmetry of MieLens.raw_fields for ALL angles, with the lens-pupil integrals uninterpreted; "
            "cluster orientation through the library API; Lens.raw_fields covariant under one phi-quadrature step.",
            '§2 C05', TRUST + "; covariance of compiled Mie/Multisphere/T-matrix kernels and of Lens' phi quadrature "
            "outside the claim"),
    'C06': ('model_checking',
            "field(Spheres) = sum of member fields with their own phases; each illumination channel (dict or labelled "
            "array, permuted order) equals the single-channel result for that channel's wavelength/index/radius/"
            "polarization; MieLens field linear in the polarization - for all symbolic values.",
            '§2 C06', TRUST + "; per-sphere kernel uninterpreted; linearity of compiled kernels outside"),
    'C08': ('model_checking',
            "Aberrated calculator with zero coefficients (scalar/list/array of any length) == unaberrated phase and "
            "radial integrals; aberrated phase formula; interpolation-mode dispatch total and rule-conforming; Lens "
            "numexpr expression strings == NumPy branch term for term.",
            '§2 C08', TRUST + "; MieLens vs Lens(Mie) numerical agreement and quadrature convergence outside"),
    'C02': ('translation_validation',
            "The pure-Python Mie series (a_l, b_l over uninterpreted Bessel atoms, pi_l/tau_l recurrences, S_perp/S_par "
            "sums) equals the textbook series written independently, for l<=6 and all x, m, theta; layering by "
            "thickness or outer radius hands identical (m, x) arrays to the coefficient kernel (1-4 layers).",
            '§2 C02', TRUST + "; agreement of the Fortran solvers and Bessel values outside the claim"),
    'C03': ('translation_validation',
            "cross_sections / asymmetry_parameter / Mie.raw_cross_sections equal Bohren-Huffman's series for arbitrary "
            "complex coefficients (l<=6); ext = sca + abs; order and 2pi/k^2 prefactor with k = 2 pi n_m/lambda; "
            "sca >= 0; |g| <= 1 for l<=2.",
            '§2 C03', TRUST + "; optical theorem vs Fortran amplitudes, absorption sign, Rayleigh limit outside"),
    'C04': ('model_checking',
            "Every argument handed to a kernel by imageformation, Mie, MieLens, Multisphere and T-matrix glue is "
            "invariant under a symbolic length scale c>0 and under (n,n_m,lambda)->(n/n_m,1,lambda/n_m); cross "
            "sections scale with c^2 - for all symbolic geometries.",
            '§2 C04', TRUST + "; homogeneity of the kernels themselves outside; T-matrix only through axi/lam ratio"),
    'C07': ('model_checking',
            "With a kernel that is an uninterpreted function of the position arguments, the hologram value at a "
            "location is identical via grid / scrambled points / cropped grid / pixel subsets; subsets keep values, "
            "coordinates, metadata, original axes; RNG call contract; purity - shapes and selections enumerated, "
            "values and sphere position symbolic.",
            '§2 C07', TRUST + "; discrete structure enumerated, not symbolic"),
    'C09': ('model_checking',
            "Default-theory rule: Multisphere iff max separation <= 30 * largest radius (2 and 3 spheres, symbolic), "
            "single/one-sphere/layered/missing-parameter/spheroid/cylinder/other/non-scatterer cases, 'auto' == explicit.",
            '§2 C09', TRUST + "; theory classes = markers; SCSMFO order independence / covariance outside"),
    'C10': ('model_checking',
            "For every real Euler-angle triple, size and wavevector accepted by the Python layer, the arguments "
            "handed to the Fortran T-matrix code cannot satisfy its closed-form STOP guards (angular ranges, "
            "INM1 >= NPN1); guards are parsed from ampld.lp.f at every run and counterexamples are replayed in a "
            "child process against the extension compiled from /repo.",
            '§2 C10', TRUST + "; iteration-dependent STOPs (convergence failures), sphere limit and symmetries "
            "outside the claim; x**0.333333 uninterpreted"),
    'C11': ('model_checking',
            "Each parameter value lands at exactly the places its prior was used (transformations, complex priors, "
            "shared priors, per-channel dicts, name collisions; 40 seeded structures quick / 400 thorough, symbolic "
            "value vectors); name-keyed == list-ordered; initial guess; add_tie for all 26 subsets of 5 candidates; "
            "rebuild from own parameters without shared state; edit_map_indices on symbolic tie indices (LIA).",
            '§2 C11', TRUST + "; structures enumerated (bounded), values symbolic"),
    'C13': ('model_checking',
            "NARROW: what the Python layers around the optimiser guarantee - start vector = scaled guess, limits = "
            "scaled finite bounds, every reported parameter within its prior's bounds, names, best-fit hologram and "
            "log-probability equal the forward model (also for pixel subsets, on the original grid), residual "
            "vector, strategy reusable - with the optimiser a nondeterministic stub honouring its limits.",
            '§2 C13', TRUST + "; convergence behaviour of Levenberg-Marquardt (fixed point, monotone improvement, "
            "recovery, repeatability) and save/load are NOT claimed"),
}

NOT_YET = {}

NOT_APPLICABLE = {
    'C15': ("the property is about the YAML text form; PyYAML's emitter/scanner/regex resolver and CPython's "
            "float repr cannot carry symbolic scalars (CrossHair inconclusive on regex over symbolic str, "
            "z3 strings unknown on the format operations); see DESIGN.md §3"),
}


def main():
    props = [json.loads(l)['id'] for l in open(os.path.join(VERIF, 'properties.jsonl'))]
    checks = []
    for pid in props:
        if pid not in CLAIMED:
            continue
        cat, text, ref, note = CLAIMED[pid]
        checks.append(dict(
            property_id=pid,
            quick_cmd=f"./check {pid} --tier quick",
            thorough_cmd=f"./check {pid} --tier thorough",
            evidence_file=f"/verif/evidence/{pid}.json",
            replay_cmd_template=f"./check {pid} --replay {{path}}",
            engine='symx',
            level_claimed=dict(category=cat, text=text, design_ref=ref),
            level_note=note,
            technique=TECH,
        ))
    na = []
    for pid in props:
        if pid in CLAIMED:
            continue
        if pid in NOT_APPLICABLE:
            na.append(dict(property_id=pid, reason=NOT_APPLICABLE[pid]))
        else:
            na.append(dict(property_id=pid, reason=NOT_YET.get(
                pid, "check not built yet in this session (planned in DESIGN.md); not claimed until it runs green")))
    man = dict(
        version=1,
        setup_cmd="./setup.sh",
        hooks=dict(guard="HOLOPY_VERIF", enable="no source hook is needed: the checks import /repo's working tree "
                   "(PYTHONPATH=/repo) and rebind module attributes at run time",
                   baseline_off_cmd="cd /repo && /venv/bin/python -m pytest -ra -q -p no:cacheprovider --timeout=900 "
                                    "--continue-on-collection-errors",
                   source_commits=[], add_only=True),
        engines=[dict(name='symx', path='/verif/symx', serves_properties=[c['property_id'] for c in checks],
                      kind_free_text="symbolic execution of the real NumPy/xarray code on z3-backed proxy scalars, "
                                     "DFS path exploration, SMT discharge, float replay")],
        checks=checks,
        not_applicable=na,
        notes="exit codes: 0 held, 1 reproduced violation, 2 harness error / vacuity / non-replaying model. "
              "UNDECIDED lines name claims the solver did not decide within the budget (never counted as held).",
    )
    with open(os.path.join(VERIF, 'MANIFEST.json'), 'w') as f:
        json.dump(man, f, indent=1)
    print(f"MANIFEST.json: {len(checks)} checks, {len(na)} not_applicable")


if __name__ == '__main__':
    main()
