#!/usr/bin/env python
"""usage: tools/prof.py C01 C01.grid.2x3 [timeout_s] -- per-claim solver time"""
import sys, time, importlib
sys.path[:0] = ['/verif', '/repo']
import z3
from symx import harness, solve
prop, obid = sys.argv[1], sys.argv[2]
T = float(sys.argv[3]) if len(sys.argv) > 3 else 10
m = importlib.import_module('props.' + prop)
ob = [o for o in m.OBLIGATIONS if o.id == obid][0]
t = time.time()
paths, st = harness.explore(ob)
print('explore', round(time.time() - t, 2), st, flush=True)
for pi, p in enumerate(paths):
    cons = p.c.all_constraints()
    print('path', pi, 'constraints', len(cons), 'claims', len(p.sess.claims), 'exc', getattr(p, 'exc', None) and p.exc[:2], flush=True)
    for name, cl in p.sess.claims:
        if z3.is_true(z3.simplify(cl)):
            continue
        v, mm, secs, eng = solve.check(cons, z3.Not(cl), T * 1000, use_cvc5=False)
        if secs > 0.5 or v != 'unsat':
            print('  ', name, v, round(secs, 2), eng, str(z3.simplify(cl))[:200].replace('\n', ' '), flush=True)
    if '--all' not in sys.argv:
        break
