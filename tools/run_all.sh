#!/bin/bash
# runs every property check (quick tier by default) and prints the summary lines
cd /verif
for p in ${PROPS:-C01 C02 C03 C04 C05 C06 C07 C08 C09 C10 C11 C12 C13 C14 C16 C17 C18 C19 C20}; do
  [ -f props/$p.py ] || continue
  ./check $p --tier ${TIER:-quick} 2>&1 | grep -E "^(VIOLATION|KNOWN|UNDECIDED|HARNESS-ERROR|C[0-9]+ tier)" | cut -c1-300 | head -8
done
