#!/bin/bash
# usage: tools/try_mutant.sh <prop> <patch.diff> [check args...]   -- applies the patch to /repo, runs the check, reverts
prop=$1; patch=$2; shift 2
cd /repo || exit 9
if ! git diff --quiet; then echo "repo dirty"; exit 9; fi
git apply "$patch" || { echo "patch does not apply"; exit 9; }
cd /verif && ./check $prop "$@" 2>&1 | grep -E "^(VIOLATION|KNOWN|UNDECIDED|HARNESS-ERROR|C[0-9]+ tier)" | cut -c1-260 | head -12
cd /repo && git checkout -- . && git status --short | head -3
